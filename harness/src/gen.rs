//! Deterministic pseudo-random numbers and the value generators: exhaustive-small enumeration,
//! the word-boundary lattice and run-biased random vectors.

use crate::kinds::Bits;

#[derive(Clone)]
pub struct Rng(pub u64);
impl Rng {
    pub fn new(seed: u64) -> Rng {
        Rng(seed.wrapping_mul(0x9E3779B97F4A7C15).wrapping_add(0xD1B54A32D192ED03))
    }
    pub fn next(&mut self) -> u64 {
        self.0 = self.0.wrapping_add(0x9E3779B97F4A7C15);
        let mut z = self.0;
        z = (z ^ (z >> 30)).wrapping_mul(0xBF58476D1CE4E5B9);
        z = (z ^ (z >> 27)).wrapping_mul(0x94D049BB133111EB);
        z ^ (z >> 31)
    }
    pub fn below(&mut self, n: usize) -> usize {
        if n == 0 {
            0
        } else {
            (self.next() % n as u64) as usize
        }
    }
    pub fn chance(&mut self, num: usize, den: usize) -> bool {
        self.below(den) < num
    }
    pub fn pick<'a, T>(&mut self, xs: &'a [T]) -> &'a T {
        &xs[self.below(xs.len())]
    }
    pub fn u128(&mut self) -> u128 {
        ((self.next() as u128) << 64) | self.next() as u128
    }
}

/// Lengths at, one before and one after every storage-word boundary of every word type.
pub const BOUNDARY: [usize; 24] = [0, 1, 2, 7, 8, 9, 15, 16, 17, 31, 32, 33, 63, 64, 65, 127, 128, 129, 191, 192, 193, 255, 256, 257];

pub fn lattice_lens(max: usize) -> Vec<usize> {
    BOUNDARY.iter().copied().filter(|l| *l <= max).collect()
}

pub fn zeros(n: usize) -> Bits {
    vec![0; n]
}
pub fn ones(n: usize) -> Bits {
    vec![1; n]
}

/// The pattern lattice Pat(n): extreme values, alternations, runs ending at word boundaries,
/// single bits / single holes at word boundaries.
pub fn patterns(n: usize) -> Vec<Bits> {
    let mut out: Vec<Bits> = Vec::new();
    let mut add = |b: Bits| {
        if !out.contains(&b) {
            out.push(b)
        }
    };
    add(zeros(n));
    if n == 0 {
        return out;
    }
    add(ones(n));
    let mut v = zeros(n);
    v[0] = 1;
    add(v); // 1
    let mut v = zeros(n);
    v[n - 1] = 1;
    add(v); // 2^(n-1)
    let mut v = ones(n);
    v[0] = 0;
    add(v); // 2^n - 2
    let mut v = ones(n);
    v[n - 1] = 0;
    add(v); // 2^(n-1) - 1
    add((0..n).map(|i| (i % 2) as u8).collect()); // 1010..10
    add((0..n).map(|i| ((i + 1) % 2) as u8).collect()); // 0101..01
    for k in BOUNDARY.iter().copied().filter(|k| *k > 0 && *k < n) {
        if [8, 16, 32, 64, 128, 192, 256].contains(&k) || [7, 9, 63, 65, 127, 129].contains(&k) {
            add((0..n).map(|i| (i < k) as u8).collect()); // low run of k ones
            add((0..n).map(|i| (i >= k) as u8).collect()); // high run starting at k
            let mut v = zeros(n);
            v[k] = 1;
            add(v); // single one at k
            let mut v = ones(n);
            v[k - 1] = 0;
            add(v); // single hole just below k
        }
    }
    out
}

/// A smaller lattice for expensive operations.
pub fn patterns_small(n: usize) -> Vec<Bits> {
    let all = patterns(n);
    let keep = 8.min(all.len());
    let mut out: Vec<Bits> = all[..keep].to_vec();
    // plus the run patterns at the largest boundary below n
    if all.len() > keep + 4 {
        out.extend_from_slice(&all[all.len() - 4..]);
    }
    out
}

/// Run-biased random vector: long runs of equal bits (carry / borrow ripple, run counts).
pub fn random_bits(rng: &mut Rng, n: usize) -> Bits {
    let mut v = Vec::with_capacity(n);
    match rng.below(4) {
        0 => {
            for _ in 0..n {
                v.push((rng.next() & 1) as u8);
            }
        }
        _ => {
            let mut b = (rng.next() & 1) as u8;
            while v.len() < n {
                let run = match rng.below(5) {
                    0 => 1,
                    1 => 1 + rng.below(8),
                    2 => 8 * (1 + rng.below(4)),
                    3 => 64,
                    _ => 1 + rng.below(70),
                };
                for _ in 0..run.min(n - v.len()) {
                    v.push(b);
                }
                b = 1 - b;
            }
        }
    }
    v
}

/// Uniformly random bits (no run bias).
pub fn random_bits_uniform(rng: &mut Rng, n: usize) -> Bits {
    (0..n).map(|_| (rng.next() & 1) as u8).collect()
}

/// A length biased towards word boundaries (and +-1), at most `max`.
pub fn random_len(rng: &mut Rng, max: usize) -> usize {
    let c = lattice_lens(max);
    let l = match rng.below(4) {
        0 => rng.below(max + 1),
        1 => rng.below(20.min(max + 1)),
        _ => {
            let b = *rng.pick(&c);
            let d = rng.below(5);
            (b + d).saturating_sub(2)
        }
    };
    l.min(max)
}

/// All bit vectors of exactly n bits (n small).
pub fn all_of_len(n: usize) -> impl Iterator<Item = Bits> {
    (0u64..(1u64 << n)).map(move |v| (0..n).map(|i| ((v >> i) & 1) as u8).collect())
}

/// Interesting native integer values for a type of `w` bits.
pub fn int_lattice(w: usize) -> Vec<u128> {
    let max: u128 = if w == 128 { u128::MAX } else { (1u128 << w) - 1 };
    let mut out = vec![0, 1, 2, 3, 10, max, max - 1, max >> 1, (max >> 1) + 1];
    let mut k = 4;
    while k < w {
        out.push((1u128 << k) - 1);
        out.push(1u128 << k);
        out.push((1u128 << k) + 1);
        k *= 2;
    }
    out.push(0x5555_5555_5555_5555_5555_5555_5555_5555u128 & max);
    out.push(0xAAAA_AAAA_AAAA_AAAA_AAAA_AAAA_AAAA_AAAAu128 & max);
    out.push(0x0123_4567_89AB_CDEF_FEDC_BA98_7654_3210u128 & max);
    out.sort();
    out.dedup();
    out
}
