//! Runs one abstract case (operation + operand bits + arguments) over a rotating matrix of
//! concrete instantiations x operand instantiations x operator forms x preparations, and folds
//! the observations into one event per DISTINCT observed outcome.  TLC then judges every distinct
//! outcome once, whatever the number of executions that produced it.

use crate::exec::*;
use crate::kinds::*;
use crate::out::*;
use crate::prep::*;
use serde_json::{json, Value};
use std::collections::HashMap;

#[derive(Clone, Debug)]
pub enum YSpec {
    None,
    Bits(Bits),
    Int(IntTy, u128),
    /// conversion target
    Target(Kind),
}

#[derive(Clone, Debug)]
pub struct Case {
    pub op: &'static str,
    pub x: Bits,
    pub y: YSpec,
    pub a: Args,
    /// operator forms to run ("" when the operation has none)
    pub forms: Vec<&'static str>,
    /// restrict the subject kinds (None = every kind that admits the subject)
    pub xkinds: Option<Vec<Kind>>,
    /// restrict the operand kinds
    pub ykinds: Option<Vec<Kind>>,
    /// the specified outcome depends on the subject's class / capacity
    pub capsens: bool,
    pub cf: &'static str,
}

impl Case {
    pub fn new(op: &'static str, x: Bits) -> Case {
        Case { op, x, y: YSpec::None, a: Args::default(), forms: vec![""], xkinds: None, ykinds: None, capsens: false, cf: "fun" }
    }
    pub fn y(mut self, y: YSpec) -> Case {
        self.y = y;
        self
    }
    pub fn a(mut self, a: Args) -> Case {
        self.a = a;
        self
    }
    pub fn forms(mut self, f: &[&'static str]) -> Case {
        self.forms = f.to_vec();
        self
    }
    pub fn xk(mut self, k: Vec<Kind>) -> Case {
        self.xkinds = Some(k);
        self
    }
    pub fn yk(mut self, k: Vec<Kind>) -> Case {
        self.ykinds = Some(k);
        self
    }
    pub fn capsens(mut self) -> Case {
        self.capsens = true;
        self
    }
    pub fn cf(mut self, cf: &'static str) -> Case {
        self.cf = cf;
        self
    }
}

pub const FORMS6: [&str; 6] = ["vv", "vr", "rv", "rr", "av", "ar"];

pub fn xdesc(v: &AnyBv, st: &State, prep: &str) -> Value {
    json!({"k": v.kind().name(), "cl": v.kind().class(), "c": st.cap, "b": st.bits.clone().unwrap_or_default(), "m": st.mode, "p": prep})
}
pub fn ydesc_none() -> Value {
    json!({"k": "-", "cl": "-", "c": 0, "b": []})
}
pub fn ydesc_vec(v: &AnyBv, prep: &str) -> Value {
    json!({"k": v.kind().name(), "cl": v.kind().class(), "c": v.capacity(), "b": v.bits(), "m": v.mode(), "p": prep})
}
pub fn ydesc_int(t: IntTy, v: u128) -> Value {
    json!({"k": t.name(), "cl": "I", "c": t.width(), "b": int_bits(v, t.width()), "iv": v.to_string()})
}
pub fn ydesc_target(k: Kind) -> Value {
    json!({"k": k.name(), "cl": k.class(), "c": k.fixed_cap().unwrap_or(0), "b": []})
}
pub fn pdesc(st: &State) -> Value {
    json!({"b": st.bits.clone().unwrap_or_default(), "n": st.len, "c": st.cap, "m": st.mode, "ok": st.bits.is_some() as u8})
}

/// Derived probes that turn storage dirt beyond `len` into data: grow with zeros, serialise,
/// test for zero.  `w` names the probed vector: "ob" / "oq" (returned vectors) or "pb" (the subject).
#[derive(Clone, Debug, PartialEq, Eq, Hash)]
pub struct Probe {
    pub w: &'static str,
    pub g: Bits,
    /// bits after pushing zeros up to the first bit of the next storage word and THEN growing with zeros:
    /// storage dirt in a whole word above `len` (which a plain resize overwrites) becomes visible
    pub gw: Bits,
    pub by: Vec<u8>,
    pub z: u8,
    /// equal (==, and cmp where the type has it) to a fresh vector built from its own bits
    pub e: u8,
    pub ok: u8,
}

impl Probe {
    pub fn to_json(&self) -> Value {
        json!({"w": self.w, "g": self.g, "gw": self.gw, "by": self.by, "z": self.z, "e": self.e, "ok": self.ok})
    }
    /// normal form for grouping: the grown vector without its trailing zeros (the amount of growth
    /// depends on the kind's capacity; clean storage gives the same normal form everywhere)
    fn norm(&self, named: bool) -> (&'static str, Bits, Vec<u8>, u8, u8) {
        let z = self.z + 4 * self.e;
        let mut g = self.g.clone();
        while g.last() == Some(&0) {
            g.pop();
        }
        // a clean push-walk has the same normal form as a clean growth: fold it in, dirt keeps it apart
        let mut gw = self.gw.clone();
        while gw.last() == Some(&0) {
            gw.pop();
        }
        if gw != g {
            g.push(7);
            g.extend(gw);
        }
        (if named { self.w } else { "" }, g, self.by.clone(), z, self.ok)
    }
}

pub fn probe(v: &AnyBv, what: &'static str) -> Probe {
    let r = std::panic::catch_unwind(std::panic::AssertUnwindSafe(|| {
        let len = v.len();
        let room = v.kind().fixed_cap().map_or(70, |c| c.saturating_sub(len).min(70));
        let mut g = v.clone();
        let o1 = exec_keep(&mut g, &Y::None, "resize", "", &Args { n: Some((len + room) as u128), bit: Some(0), ..Default::default() });
        let gb = g.bits();
        // push-walk into the next storage word, then grow
        let w = v.kind().word();
        let j = (w - len % w) % w + 1;
        let cap_room = v.kind().fixed_cap().map_or(usize::MAX, |c| c.saturating_sub(len));
        let gwb = if j < cap_room {
            let mut gw = v.clone();
            for _ in 0..j {
                exec_keep(&mut gw, &Y::None, "push", "", &Args { bit: Some(0), ..Default::default() });
            }
            let extra = 70.min(cap_room - j);
            exec_keep(&mut gw, &Y::None, "resize", "", &Args { n: Some((len + j + extra) as u128), bit: Some(0), ..Default::default() });
            gw.bits()
        } else {
            gb.clone()
        };
        let mut c = v.clone();
        let by = match exec_keep(&mut c, &Y::None, "to_vec", "", &Args { e: Some('L'), ..Default::default() }) {
            Out::Bytes(b) => b,
            _ => vec![255, 255, 255],
        };
        let z = match exec_keep(&mut c, &Y::None, "is_zero", "", &Args::default()) {
            Out::Bool(b) => b as u8,
            _ => 2,
        };
        // whole-storage comparisons (Bvd == / cmp read every allocated word)
        let twin = Y::Vec(AnyBv::fresh(v.kind(), &v.bits()));
        let e1 = exec_keep(&mut c, &twin, "eq", "", &Args::default()) == Out::Bool(true);
        let e2 = exec_keep(&mut c, &twin, "cmp", "", &Args::default()) == Out::Ord(0);
        let e3 = exec_keep(&mut c, &twin, "ge", "", &Args::default()) == Out::Bool(true);
        Probe { w: what, g: gb, gw: gwb, by, z, e: (e1 && e2 && e3) as u8, ok: (o1 == Out::Unit) as u8 }
    }));
    r.unwrap_or(Probe { w: what, g: vec![], gw: vec![], by: vec![], z: 2, e: 2, ok: 0 })
}

/// probes of every vector a call returned, then of the subject itself
pub fn probes_native(x: &AnyBv, o: &Out, stash: &[AnyBv]) -> Vec<Probe> {
    if matches!(o, Out::Panic | Out::ErrCap | Out::ErrFmt(_) | Out::ErrIo) {
        return vec![];
    }
    let mut out = Vec::new();
    let names = ["ob", "oq"];
    for (i, v) in stash.iter().enumerate().take(2) {
        out.push(probe(v, names[i]));
    }
    out.push(probe(x, "pb"));
    out
}
pub fn probes(x: &AnyBv, o: &Out, stash: &[AnyBv]) -> Vec<Value> {
    probes_native(x, o, stash).iter().map(|p| p.to_json()).collect()
}

/// Native reference for the three-way cross-check (DESIGN.md 4.3): when subject and operand fit
/// in 128 bits the expected result is also computed with plain u128 arithmetic / core::fmt /
/// from_str_radix and logged as `ref`.  Trace.tla first checks that the SPECIFICATION agrees with
/// this reference; a disagreement is a specification bug (tool error), never a violation.
pub fn native_ref(case: &Case) -> Option<Value> {
    let n = case.x.len();
    if n > 128 {
        return None;
    }
    let mask = |w: usize| -> u128 { if w >= 128 { u128::MAX } else { (1u128 << w) - 1 } };
    let a = bits_int(&case.x);
    let yb: Option<Bits> = match &case.y {
        YSpec::Bits(b) => Some(b.clone()),
        YSpec::Int(t, v) => Some(int_bits(*v, t.width())),
        _ => None,
    };
    let vec = |v: u128| Out::Vec(int_bits(v & mask(n), n)).to_json();
    if is_binop(case.op) {
        let yb = yb?;
        // bits of the operand at or beyond 128 cannot be represented: only usable if they are zero
        if yb.iter().skip(128).any(|b| *b != 0) {
            return None;
        }
        let b = bits_int(&yb);
        return Some(match case.op {
            "add" => vec(a.wrapping_add(b)),
            "sub" => vec(a.wrapping_sub(b & mask(n)).wrapping_add(if n < 128 { 1u128 << n } else { 0 })),
            "mul" => vec(a.wrapping_mul(b)),
            "and" => vec(a & b),
            "or" => vec(a | b),
            "xor" => vec(a ^ b),
            "div" => {
                if b == 0 { return None; }
                vec(a / b)
            }
            "rem" => {
                if b == 0 { return None; }
                vec(a % b)
            }
            _ => return None,
        });
    }
    match case.op {
        "shl" | "shr" => {
            let k = case.a.n?;
            Some(if k >= n as u128 { vec(0) } else if case.op == "shl" { vec(a << k) } else { vec(a >> k) })
        }
        "not" => Some(vec(!a)),
        "eq" | "ne" | "lt" | "le" | "gt" | "ge" | "pcmp" | "cmp" => {
            let yb = yb?;
            if yb.len() > 128 {
                return None;
            }
            let b = bits_int(&yb);
            let c = a.cmp(&b) as i8;
            Some(match case.op {
                "eq" => Out::Bool(c == 0),
                "ne" => Out::Bool(c != 0),
                "lt" => Out::Bool(c < 0),
                "le" => Out::Bool(c <= 0),
                "gt" => Out::Bool(c > 0),
                "ge" => Out::Bool(c >= 0),
                _ => Out::Ord(c),
            }.to_json())
        }
        "fmt" => {
            let s = crate::fmtgen::fmt_apply(&a, case.a.fmt.as_ref()?)?;
            Some(Out::Str(s.chars().map(|c| c.to_string()).collect()).to_json())
        }
        "from_binary" | "from_hex" => {
            let cs = case.a.chars.as_ref()?;
            let s: String = cs.concat();
            let (radix, per) = if case.op == "from_binary" { (2, 1) } else { (16, 4) };
            if cs.len() * per > 128 || cs.is_empty() || !s.is_ascii() || s.starts_with('+') || s.starts_with('-') {
                return None;
            }
            let v = u128::from_str_radix(&s, radix).ok()?;
            Some(Out::Vec(int_bits(v, cs.len() * per)).to_json())
        }
        _ => None,
    }
}

pub fn is_form_op(op: &str) -> bool {
    is_binop(op) || op == "shl" || op == "shr"
}

pub struct Matrix {
    pub dbg: bool,
    /// rotation counter: advances with every case so that kinds / forms / preparations rotate
    pub rot: usize,
    /// operand kinds tried per subject kind
    pub ny: usize,
    pub execs: u64,
    pub prep_fallbacks: u64,
    pub events: u64,
    /// executions per (subject kind) and per (operand kind or int type), for the evidence file
    pub by_kind: HashMap<&'static str, u64>,
    pub by_op: HashMap<&'static str, u64>,
    /// drive every preparation of the subject kind in every case (not only in operand-less cases)
    pub all_preps: bool,
    /// operand-less cases run under every preparation (drivers) or a rotating sample of three
    /// (replay of the bounded models' transitions: hundreds of thousands of them in the thorough tier)
    pub unary_all_preps: bool,
}

impl Matrix {
    pub fn new(dbg: bool, ny: usize) -> Matrix {
        Matrix { dbg, rot: 0, ny, execs: 0, prep_fallbacks: 0, events: 0, by_kind: HashMap::new(), by_op: HashMap::new(), all_preps: false, unary_all_preps: true }
    }

    fn prep_cands(kind: Kind) -> &'static [Prep] {
        match kind {
            Kind::A => &[Prep::Fresh, Prep::Heap, Prep::Spare, Prep::Shrunk, Prep::Truncated, Prep::Pushed, Prep::Reserved, Prep::Popped, Prep::Conv(Kind::D), Prep::Masked, Prep::Summed, Prep::Ored(Kind::D)],
            Kind::D => &[Prep::Fresh, Prep::Spare, Prep::Shrunk, Prep::Truncated, Prep::Reserved, Prep::Pushed, Prep::Popped, Prep::Conv(Kind::F64x4), Prep::Masked, Prep::Summed, Prep::Ored(Kind::A)],
            _ => &[Prep::Fresh, Prep::Shrunk, Prep::Truncated, Prep::Pushed, Prep::Popped, Prep::Conv(Kind::D), Prep::Masked, Prep::Conv(Kind::F8x3), Prep::Summed, Prep::Ored(Kind::D), Prep::Ored(Kind::F8x4)],
        }
    }

    fn prep_for(&mut self, kind: Kind, salt: usize) -> Prep {
        let cands = Self::prep_cands(kind);
        cands[(self.rot / 3 + salt) % cands.len()]
    }

    /// Run the case; returns one event per distinct observed outcome.
    pub fn run(&mut self, case: &Case) -> Vec<Value> {
        self.rot += 1;
        let rot = self.rot;
        crate::progress::set_current(
            json!({"op": case.op, "x": {"b": case.x}, "y": format!("{:?}", case.y), "a": case.a.to_json(), "forms": case.forms}).to_string(),
        );
        // (key, representative, count)
        let mut groups: Vec<(ObsKey, Rep, u64)> = Vec::new();
        let xkinds: Vec<Kind> = match &case.xkinds {
            Some(k) => k.clone(),
            None => ALL_KINDS.to_vec(),
        };
        let ctor = is_ctor(case.op);
        let form_op = is_form_op(case.op);
        for (xi, kx) in xkinds.iter().copied().enumerate() {
            if !ctor && !kx.admits(case.x.len()) {
                continue;
            }
            // subjects without a vector operand are cheap: every preparation of the kind is driven;
            // with a vector operand one preparation per case, rotating
            let unary = matches!(case.y, YSpec::None | YSpec::Target(_));
            let prepxs: Vec<Prep> = if ctor {
                vec![Prep::Fresh]
            } else if (unary && self.unary_all_preps) || self.all_preps {
                Self::prep_cands(kx).to_vec()
            } else if unary {
                let c = Self::prep_cands(kx);
                let mut v = vec![Prep::Fresh];
                for j in 0..2 {
                    let p = c[(self.rot + xi * 3 + j * 4) % c.len()];
                    if !v.contains(&p) {
                        v.push(p);
                    }
                }
                v
            } else {
                vec![self.prep_for(kx, xi)]
            };
            // operand choices
            let ys: Vec<(Option<Kind>, Prep)> = match &case.y {
                YSpec::Bits(yb) => {
                    let cands: Vec<Kind> = if case.op == "clone_from" {
                        // Clone::clone_from takes a source of the subject's own type
                        if kx.admits(yb.len()) { vec![kx] } else { vec![] }
                    } else { match &case.ykinds {
                        Some(k) => k.iter().copied().filter(|k| k.admits(yb.len())).collect(),
                        None => ALL_KINDS.iter().copied().filter(|k| k.admits(yb.len())).collect(),
                    } };
                    let mut v = Vec::new();
                    if !cands.is_empty() {
                        for t in 0..self.ny.min(cands.len()) {
                            // stride through the candidates so that every (x kind, y kind) pair comes up
                            let ky = cands[(rot + xi * 5 + t * (cands.len() / self.ny.max(1)).max(1)) % cands.len()];
                            let py = self.prep_for(ky, xi + t + 1);
                            if !v.contains(&(Some(ky), py)) {
                                v.push((Some(ky), py));
                            }
                        }
                    }
                    v
                }
                _ => vec![(None, Prep::Fresh)],
            };
            let prepxs_many = prepxs.len() > 1;
            for prepx in prepxs {
            let (x0, okx) = make(kx, &case.x, prepx);
            if !okx {
                self.prep_fallbacks += 1;
                if prepx != Prep::Fresh && prepxs_many {
                    continue; // the fresh construction is one of the candidates already
                }
            }
            let pre = observe(&x0);
            for (ky, prepy) in ys.iter().cloned() {
                let (yv0, oky) = match &case.y {
                    YSpec::None | YSpec::Target(_) => (Y::None, true),
                    YSpec::Int(t, v) => (Y::Int(*t, *v), true),
                    YSpec::Bits(yb) => {
                        let (yy, oky) = make(ky.unwrap(), yb, prepy);
                        (Y::Vec(yy), oky)
                    }
                };
                if !oky {
                    self.prep_fallbacks += 1;
                }
                let ybits_before = yv0.bits();
                for f in case.forms.iter().copied() {
                    let mut x = x0.clone();
                    let yv = yv0.clone();
                    let mut a = case.a.clone();
                    if let YSpec::Target(k) = &case.y {
                        a.tk = Some(*k);
                    }
                    let o = exec(&mut x, &yv, case.op, f, &a);
                    let results = take_stash();
                    let post = observe(&x);
                    let prv = probes_native(&x, &o, &results);
                    let py = yv.bits();
                    self.execs += 1;
                    *self.by_kind.entry(kx.name()).or_insert(0) += 1;
                    *self.by_op.entry(case.op).or_insert(0) += 1;
                    // normalised observation for grouping
                    let assign = f == "av" || f == "ar";
                    let key = if form_op {
                        let res = if assign && o == Out::Unit { Out::Vec(post.bits.clone().unwrap_or_default()) } else { o.clone() };
                        let x_ok = assign || post.bits == pre.bits;
                        ObsKey {
                            cap: if case.capsens { Some((kx.class(), kx.fixed_cap())) } else { None },
                            res,
                            post: None,
                            flags: (x_ok, py == ybits_before, post.len <= post.cap, 0),
                            pr: prv.first().map(|p| vec![p.norm(false)]).unwrap_or_default(),
                        }
                    } else {
                        ObsKey {
                            cap: if case.capsens { Some((kx.class(), kx.fixed_cap())) } else { None },
                            res: o.clone(),
                            post: Some(post.bits.clone()),
                            flags: (true, py == ybits_before, post.len <= post.cap, post.len),
                            pr: prv.iter().map(|p| p.norm(true)).collect(),
                        }
                    };
                    if let Some(g) = groups.iter_mut().find(|g| g.0 == key) {
                        g.2 += 1;
                        continue;
                    }
                    let prepx_name = if okx { prepx.name() } else { "fresh".to_string() };
                    let yd = match &case.y {
                        YSpec::None => ydesc_none(),
                        YSpec::Int(t, v) => ydesc_int(*t, *v),
                        YSpec::Target(k) => ydesc_target(*k),
                        YSpec::Bits(_) => match &yv0 {
                            Y::Vec(yy) => ydesc_vec(yy, &if oky { prepy.name() } else { "fresh".to_string() }),
                            _ => ydesc_none(),
                        },
                    };
                    let rep = Rep { f, x: xdesc(&x0, &pre, &prepx_name), y: yd, a: a.to_json(), px: pdesc(&post), py, o: o.to_json(),
                                    pr: json!(prv.iter().map(|p| p.to_json()).collect::<Vec<_>>()) };
                    groups.push((key, rep, 1));
                }
            }
            }
        }
        self.events += groups.len() as u64;
        let nref = if case.cf == "fun" { native_ref(case) } else { None };
        groups
            .into_iter()
            .map(|(_, r, n)| {
                let mut ev = json!({
                    "op": case.op, "f": r.f, "r": "s", "nb": 1, "cf": case.cf, "dbg": self.dbg as u8,
                    "x": r.x, "y": r.y, "a": r.a, "px": r.px, "py": r.py, "o": r.o, "pr": r.pr, "cov": n,
                });
                // (only for outcomes that do not depend on a fixed capacity)
                if let Some(rf) = &nref {
                    if !(case.capsens && ev["x"]["cl"] == "F" && ev["o"]["t"] == "err") {
                        ev["ref"] = rf.clone();
                    }
                }
                ev
            })
            .collect()
    }
}

#[derive(PartialEq, Eq)]
struct ObsKey {
    cap: Option<(&'static str, Option<usize>)>,
    res: Out,
    post: Option<Option<Bits>>,
    flags: (bool, bool, bool, usize),
    pr: Vec<(&'static str, Bits, Vec<u8>, u8, u8)>,
}

struct Rep {
    f: &'static str,
    x: Value,
    y: Value,
    a: Value,
    px: Value,
    py: Bits,
    o: Value,
    pr: Value,
}
