//! Drivers: run the real code on exhaustive-small / word-boundary-lattice / seeded-random inputs and
//! record what it did, one ndjson event per distinct observed outcome, for validation by TLC.

use crate::exec::*;
use crate::gen::*;
use crate::kinds::*;
use crate::matrix::*;
use crate::out::*;
use crate::sink::Sink;
use serde_json::{json, Value};

pub struct Tier {
    pub quick: bool,
    pub seed: u64,
    pub dbg: bool,
}

impl Tier {
    /// pick the quick or the thorough value
    pub fn q<T>(&self, quick: T, thorough: T) -> T {
        if self.quick {
            quick
        } else {
            thorough
        }
    }
}

/// lattice lengths x lattice patterns, plus a few run-biased random values per length
pub fn pool(t: &Tier, rng: &mut Rng, max_len: usize, small: bool, randoms: usize) -> Vec<Bits> {
    let mut out = Vec::new();
    for n in lattice_lens(max_len) {
        let pats = if small { patterns_small(n) } else { patterns(n) };
        out.extend(pats);
        if n > 1 {
            for _ in 0..randoms {
                out.push(random_bits(rng, n));
            }
        }
    }
    let _ = t;
    out
}

fn sample<T: Clone>(rng: &mut Rng, xs: &[T], k: usize) -> Vec<T> {
    if xs.len() <= k {
        return xs.to_vec();
    }
    // deterministic stride sample with a random offset: keeps the spread of the pool
    let off = rng.below(xs.len());
    (0..k).map(|i| xs[(off + i * xs.len() / k) % xs.len()].clone()).collect()
}

fn pick_int(rng: &mut Rng) -> (IntTy, u128) {
    let ty = *rng.pick(&ALL_INTS);
    let lat = int_lattice(ty.width());
    let v = if rng.chance(1, 3) { rng.u128() & ty.max() } else { *rng.pick(&lat) };
    (ty, v)
}

/// operand values for a subject of n bits: shorter, equal, longer, much longer, empty
pub fn operand_for(rng: &mut Rng, n: usize, max_len: usize, nonzero: bool) -> Bits {
    let len = match rng.below(8) {
        0 => 0,
        1 | 2 => n,
        3 => rng.below(n + 1),
        4 => (n + 1 + rng.below(9)).min(max_len),
        5 => (n + 64 + rng.below(3)).min(max_len),
        6 => random_len(rng, max_len),
        _ => (n + rng.below(3)).saturating_sub(1).min(max_len),
    };
    let pats = patterns_small(len);
    let mut v = if rng.chance(1, 2) { rng.pick(&pats).clone() } else { random_bits(rng, len) };
    if nonzero && v.iter().all(|b| *b == 0) && !v.is_empty() {
        let i = rng.below(v.len());
        v[i] = 1;
    }
    v
}

// ------------------------------------------------------------------------------------------------
// C01 / C02 / C04: binary operators
// ------------------------------------------------------------------------------------------------

fn binop_driver(t: &Tier, m: &mut Matrix, sink: &mut Sink, ops: &[&'static str], heavy: &[&'static str], zero_div: bool) {
    let mut rng = Rng::new(t.seed ^ 0xC01);
    let max_len = t.q(129, 257);
    let heavy_len = t.q(66, 130);
    let xs = pool(t, &mut rng, max_len, t.quick, t.q(1, 6));
    let per_x = t.q(2, 10);
    for x in &xs {
        for op in ops.iter().copied() {
            if heavy.contains(&op) && x.len() > heavy_len {
                continue;
            }
            let is_div = matches!(op, "div" | "rem" | "div_rem");
            for _ in 0..per_x {
                let ymax = if heavy.contains(&op) { heavy_len + 64 } else { max_len + 64 };
                let y = operand_for(&mut rng, x.len(), ymax, is_div);
                if is_div && y.iter().all(|b| *b == 0) {
                    continue;
                }
                let forms: &[&str] = if op == "div_rem" { &[""] } else { &FORMS6 };
                sink.emit(m.run(&Case::new(op, x.clone()).y(YSpec::Bits(y)).forms(forms)));
            }
            // native integer operand
            if op != "div_rem" {
                for _ in 0..t.q(1, 5) {
                    let (ty, mut v) = pick_int(&mut rng);
                    if is_div && v == 0 {
                        v = 3;
                    }
                    sink.emit(m.run(&Case::new(op, x.clone()).y(YSpec::Int(ty, v)).forms(&FORMS6)));
                }
            }
        }
    }
    // zero and empty divisors must panic in every pairing and form
    if zero_div {
        let subjects = sample(&mut rng, &xs, t.q(12, 120));
        for x in &subjects {
            for op in ["div", "rem", "div_rem"] {
                if !ops.contains(&op) {
                    continue;
                }
                for ylen in [0usize, 1, 8, 64, 65, 130] {
                    let forms: &[&str] = if op == "div_rem" { &[""] } else { &FORMS6 };
                    sink.emit(m.run(&Case::new(op, x.clone()).y(YSpec::Bits(zeros(ylen))).forms(forms)));
                }
                if op != "div_rem" {
                    let ty = *rng.pick(&ALL_INTS);
                    sink.emit(m.run(&Case::new(op, x.clone()).y(YSpec::Int(ty, 0)).forms(&FORMS6)));
                }
            }
        }
    }
    // a few wide cases of the expensive operators: multi-word products / quotients of 128-bit words
    // (u128::wmul high parts only matter beyond 128 bits), carries across every word boundary
    {
        let wide_lens = [129usize, 130, 191, 192, 193, 255, 256, 257, 50, 63, 64, 100, 127, 128, 385, 448, 511, 512];
        for i in 0..t.q(160, 1800) {
            let n = wide_lens[i % wide_lens.len()];
            let ylen = *rng.pick(&[n, 128, 64, 129, 256, 200, n, n / 2 + 1]);
            let shape = |rng: &mut Rng, len: usize, k: usize| -> Bits {
                match k % 7 {
                    0 => ones(len),
                    1 => (0..len).map(|i| (i % 2) as u8).collect(),
                    2 => (0..len).map(|i| (i < 128) as u8).collect(),
                    3 => (0..len).map(|i| (i >= 64) as u8).collect(),
                    4 => (0..len).map(|i| (i % 64 == 63 || i % 64 == 0) as u8).collect(),
                    5 => (0..len).map(|i| (i % 16 != 7) as u8).collect(),
                    _ => random_bits(rng, len),
                }
            };
            let x = shape(&mut rng, n, i);
            let mut y = shape(&mut rng, ylen, i / 6 + 1);
            let op = ops[i % ops.len()];
            let is_div = matches!(op, "div" | "rem" | "div_rem");
            if i % 5 == 0 {
                // y shares every word of x except the lowest and (sometimes) the highest ones:
                // carries / borrows then run through words where both operands are equal
                y = x.clone();
                y.truncate(ylen.min(n));
                let w = *rng.pick(&[8usize, 16, 32, 64, 128]);
                for b in y.iter_mut().take(w) {
                    *b = 1;
                }
                let mut x2 = x.clone();
                for b in x2.iter_mut().take(w) {
                    *b = 0;
                }
                let forms: &[&str] = if op == "div_rem" { &[""] } else { &FORMS6 };
                if !(is_div && (n > 257 || y.iter().all(|b| *b == 0))) {
                    sink.emit(m.run(&Case::new(op, x2).y(YSpec::Bits(y.clone())).forms(forms)));
                }
            }
            if heavy.contains(&op) && !is_div && t.quick && n > 257 && i % 4 != 0 {
                continue; // 512-bit products are slow to evaluate in TLC: a quarter of them in quick
            }
            if is_div {
                if n > 257 && (t.quick && i % 12 != 0) {
                    continue;
                }
                if t.quick && i % 3 != 0 {
                    continue; // restoring division of 256-bit operands is the slowest thing TLC evaluates
                }
                if y.iter().all(|b| *b == 0) {
                    y[0] = 1;
                }
                // quotients of every size: divisor much shorter, about half, almost equal
                let keep = *rng.pick(&[ylen, ylen / 2, 70, 9]);
                for b in y.iter_mut().skip(keep.max(1)) {
                    *b = 0;
                }
                if y.iter().all(|b| *b == 0) {
                    y[0] = 1;
                }
            }
            let forms: &[&str] = if op == "div_rem" { &[""] } else { &FORMS6 };
            sink.emit(m.run(&Case::new(op, x).y(YSpec::Bits(y)).forms(forms)));
        }
    }
    // random and sparse operands at the lengths where the N = 4 instantiations of every word type use
    // all their words (u8: 25..32, u16: 49..64, u32: 97..128, u64/usize: 193..256, u128: 385..512)
    {
        let bands: [(usize, usize); 5] = [(25, 32), (49, 64), (97, 128), (193, 256), (385, 512)];
        let sparse = |len: usize, ks: &[usize]| -> Bits {
            let mut v = zeros(len);
            for k in ks {
                if *k < len {
                    v[*k] = 1;
                }
            }
            v
        };
        for (bi, (lo, hi)) in bands.iter().copied().enumerate() {
            let reps = if hi > 256 { t.q(24, 96) } else { t.q(48, 400) };
            for i in 0..reps {
                let op = ops[i % ops.len()];
                let is_div = matches!(op, "div" | "rem" | "div_rem");
                if is_div && hi > 256 && t.quick && i % 2 == 1 && i % 4 != 3 {
                    continue;
                }
                let n = if i % 3 == 0 { hi } else { lo + rng.below(hi - lo + 1) };
                let w = hi / 4; // the word size of the instantiation this band is about
                let (x, y): (Bits, Bits) = match i % 4 {
                    // random x random
                    0 | 1 => (random_bits(&mut rng, n), { let m = if i % 2 == 0 { n } else { n / 2 + rng.below(n / 2 + 1) }; let mut y = random_bits(&mut rng, m); if is_div && y.iter().all(|b| *b == 0) { y[0] = 1; } y }),
                    // sparse: powers of two and small multiples against 2^(k*w) + 1 (equal zero words in between)
                    2 => (sparse(n, &[n - 1, 2 * w, w + 1][..1 + i % 3]), sparse((2 * w + 1).min(n), &[0, w, 2 * w][..1 + (i / 4) % 3])),
                    // a saturated middle word in the operand
                    _ => (random_bits_uniform(&mut rng, if i % 8 == 3 { hi } else { n }), {
                        if (i / 4) % 2 == 0 {
                            // two saturated low words: 2^(2w) - 1 or 2^(2w-1) - 1
                            ones(2 * w - (i / 8) % 2)
                        } else {
                            let mut y = zeros((3 * w).min(n));
                            for k in w..(2 * w).min(y.len()) { y[k] = 1; }
                            y[0] = 1;
                            if y.len() > 2 * w { y[2 * w] = (i % 2) as u8; }
                            y
                        }
                    }),
                };
                let _ = bi;
                let forms: &[&str] = if op == "div_rem" { &[""] } else { &FORMS6 };
                sink.emit(m.run(&Case::new(op, x).y(YSpec::Bits(y)).forms(forms)));
            }
        }
    }
    // long subject, short operand held in narrow storage words (one to four u8 / u16 / u32 words):
    // the operand's storage is then not a whole number of the subject's words
    {
        let narrow = vec![Kind::F8x1, Kind::F8x2, Kind::F8x3, Kind::F8x4, Kind::F16x1, Kind::F16x4, Kind::F32x1, Kind::F32x4];
        let mut k = 0usize;
        for n in [65usize, 128, 129, 192, 200, 256, 257] {
            for ylen in [1usize, 7, 8, 12, 16, 24, 31, 32, 33, 64] {
                for xv in 0..2 {
                    k += 1;
                    if t.quick && k % 2 == 0 {
                        continue;
                    }
                    let op = ops[k % ops.len()];
                    let is_div = matches!(op, "div" | "rem" | "div_rem");
                    if is_div && t.quick && n > 200 && k % 4 != 1 {
                        continue;
                    }
                    let x = if xv == 0 { random_bits_uniform(&mut rng, n) } else { ones(n) };
                    let mut y = if k % 3 == 0 { ones(ylen) } else { random_bits_uniform(&mut rng, ylen) };
                    y[ylen - 1] = 1;
                    let forms: &[&str] = if op == "div_rem" { &[""] } else { &FORMS6 };
                    sink.emit(m.run(&Case::new(op, x).y(YSpec::Bits(y)).forms(forms).yk(narrow.clone())));
                }
            }
        }
    }
    // subject of several words, operand ONE word of the same word type (single-pass fast paths): values whose
    // partial product carries into a word that is all zeros / all ones in the subject
    {
        let fam: [(Vec<Kind>, Kind, usize); 6] = [
            (vec![Kind::F8x2, Kind::F8x3, Kind::F8x4], Kind::F8x1, 8), (vec![Kind::F16x4], Kind::F16x1, 16), (vec![Kind::F32x4], Kind::F32x1, 32),
            (vec![Kind::F64x2, Kind::F64x4], Kind::F64x1, 64), (vec![Kind::F128x4], Kind::F128x1, 128), (vec![Kind::Fux4], Kind::Fux1, 64),
        ];
        let mut k = 0usize;
        for (xks, yk, w) in fam.iter() {
            let w = *w;
            for xk in xks {
                let cap = xk.fixed_cap().unwrap();
                for n in [w + 1, 2 * w, (2 * w + 3).min(cap), cap] {
                    if n > cap {
                        continue;
                    }
                    for xv in 0..4 {
                        for yv in 0..3 {
                            k += 1;
                            if t.quick && w == 128 && k % 2 == 0 {
                                continue;
                            }
                            let mut x = zeros(n);
                            match xv {
                                0 => x[w - 1] = 1,                                   // 2^(w-1): the product carries into a zero word
                                1 => { for i in 0..w { x[i] = 1; } }                 // low word saturated, zero above
                                2 => { for i in 0..n { x[i] = (i < w || i >= (2 * w).min(n)) as u8; } } // zero word in the middle
                                _ => x = random_bits_uniform(&mut rng, n),
                            }
                            let y: Bits = match yv {
                                0 => int_bits(2, w.min(8).max(2)),
                                1 => ones(w),
                                _ => { let mut y = random_bits_uniform(&mut rng, w); y[w - 1] = 1; y }
                            };
                            let op = ops[k % ops.len()];
                            let forms: &[&str] = if op == "div_rem" { &[""] } else { &FORMS6 };
                            sink.emit(m.run(&Case::new(op, x).y(YSpec::Bits(y)).forms(forms).xk(vec![*xk]).yk(vec![*yk])));
                        }
                    }
                }
            }
        }
    }
    // products of (near-)powers of two at every pair of word boundaries: partial products that are exactly
    // 2^w, 2^(2w) (the cross terms of the widening multiply of each word type, their carries into the next word)
    if ops.contains(&"mul") {
        let exps = [7usize, 8, 16, 31, 32, 63, 64, 65, 127, 128, 192];
        let mut k = 0usize;
        for n in [33usize, 65, 129, 192, 256, 257, 512] {
            for a in exps {
                for b in exps {
                    if a + b >= n {
                        continue;
                    }
                    k += 1;
                    if t.quick && n > 257 && k % 3 != 0 {
                        continue;
                    }
                    let pow = |len: usize, e: usize, variant: usize| -> Bits {
                        let mut v = zeros(len);
                        match variant {
                            0 => v[e] = 1,                                   // 2^e
                            1 => { for i in 0..e { v[i] = 1; } }             // 2^e - 1
                            _ => { v[e] = 1; v[0] = 1; }                     // 2^e + 1
                        }
                        v
                    };
                    let ylen = if k % 2 == 0 { n } else { b + 1 };
                    // exact powers always, one rotating pair of neighbours in addition
                    for (vx, vy) in [(0usize, 0usize), (1 + k % 2, (k / 2) % 3)] {
                        let x = pow(n, a, vx);
                        let y = pow(ylen, b, vy);
                        sink.emit(m.run(&Case::new("mul", x).y(YSpec::Bits(y)).forms(&FORMS6)));
                    }
                }
            }
        }
    }
    // full-length random products: a double carry out of one column of the schoolbook multiply needs
    // both partial additions to overflow (about one random 4-word product in twenty)
    if ops.contains(&"mul") {
        for (lo, hi, reps) in [(25usize, 32usize, t.q(60, 400)), (49, 64, t.q(60, 400)), (97, 128, t.q(60, 400)), (193, 256, t.q(320, 2400)), (385, 512, t.q(24, 200))] {
            for i in 0..reps {
                let n = if i % 2 == 0 { hi } else { lo + rng.below(hi - lo + 1) };
                let x = random_bits_uniform(&mut rng, n);
                let y = random_bits_uniform(&mut rng, if i % 3 == 0 { n / 2 + 1 } else { n });
                sink.emit(m.run(&Case::new("mul", x).y(YSpec::Bits(y)).forms(&FORMS6)));
            }
        }
    }
    // divisors longer than the dividend: values just above the largest dividend (2^n, 2^n + 1), far
    // above it, and long divisors whose value is small; dividends that saturate their length
    if ops.contains(&"div_rem") {
        let mut k = 0usize;
        for n in [1usize, 8, 16, 31, 32, 33, 63, 64, 65, 127, 128, 129, 192, 256] {
            for ext in [1usize, 2, 8, 63, 64, 65, 128] {
                if t.quick && n > 129 && ext > 8 && ext != 64 {
                    continue;
                }
                for xv in 0..3 {
                    let x = match xv {
                        0 => ones(n),
                        1 => { let mut v = zeros(n); v[n - 1] = 1; v }
                        _ => random_bits_uniform(&mut rng, n),
                    };
                    for yv in 0..4 {
                        k += 1;
                        let ylen = n + ext;
                        let y: Bits = match yv {
                            0 => { let mut v = zeros(ylen); v[n] = 1; v }                 // 2^n
                            1 => { let mut v = zeros(ylen); v[n] = 1; v[0] = 1; v }       // 2^n + 1
                            2 => { let mut v = random_bits_uniform(&mut rng, ylen); v[ylen - 1] = 1; v }
                            _ => { let mut v = zeros(ylen); v[k % n.min(7)] = 1; v[0] = 1; v } // long but small
                        };
                        if t.quick && (k % 3 != 0) && !(xv == 0 && yv < 2) {
                            continue;
                        }
                        let op = ["div_rem", "div", "rem"][k % 3];
                        if !ops.contains(&op) {
                            continue;
                        }
                        let forms: &[&str] = if op == "div_rem" { &[""] } else { &FORMS6 };
                        sink.emit(m.run(&Case::new(op, x.clone()).y(YSpec::Bits(y)).forms(forms)));
                    }
                }
            }
        }
    }
    // structured quotients: x = y * q + r with q sparse, its set bits a whole number of storage words
    // (or one more / one less) apart: long division then meets remainders that are exactly one word
    // shorter than the shifted divisor, and quotient words that are all zeros
    if ops.contains(&"div_rem") {
        let add_into = |acc: &mut Bits, v: &Bits, sh: usize| {
            let mut carry = 0u8;
            for i in sh..acc.len() {
                let b = if i - sh < v.len() { v[i - sh] } else { 0 };
                let s = acc[i] + b + carry;
                acc[i] = s & 1;
                carry = s >> 1;
            }
        };
        let gaps = [8usize, 16, 32, 63, 64, 65, 127, 128, 129, 192];
        let mut k = 0usize;
        for n in [40usize, 72, 130, 192, 200, 256, 257] {
            for d in gaps {
                for p in [d + 1, d + 2, d + 36, n - 3] {
                    if p < d || p + 2 >= n {
                        continue;
                    }
                    k += 1;
                    if t.quick && k % 2 == 0 {
                        continue;
                    }
                    // divisor: 1, 3, a power of two, a random value of up to about a word
                    let ylen = *rng.pick(&[1usize, 2, 8, 33, 64, 65]);
                    let ylen = ylen.min(n - p - 1).max(1);
                    let mut y = match k % 4 {
                        0 => int_bits(1, ylen),
                        1 => int_bits(3, ylen.max(2)),
                        2 => { let mut v = zeros(ylen); v[ylen - 1] = 1; v }
                        _ => random_bits_uniform(&mut rng, ylen),
                    };
                    if y.iter().all(|b| *b == 0) {
                        y[0] = 1;
                    }
                    let sig = y.iter().rposition(|b| *b == 1).unwrap() + 1;
                    if p + sig >= n {
                        continue;
                    }
                    let mut x = zeros(n);
                    add_into(&mut x, &y, p);
                    add_into(&mut x, &y, p - d);
                    if k % 3 == 0 {
                        add_into(&mut x, &y, 0);
                    }
                    // remainder below the divisor
                    let mut r = random_bits_uniform(&mut rng, sig - 1);
                    r.resize(sig, 0);
                    if k % 5 != 0 {
                        add_into(&mut x, &r, 0);
                    }
                    let op = ["div_rem", "div", "rem"][k % 3];
                    if !ops.contains(&op) {
                        continue;
                    }
                    let forms: &[&str] = if op == "div_rem" { &[""] } else { &FORMS6 };
                    sink.emit(m.run(&Case::new(op, x).y(YSpec::Bits(y)).forms(forms)));
                }
            }
        }
    }
    // dense small random cases (both operands short: every kind takes part)
    for _ in 0..t.q(200, 20000) {
        let n = rng.below(t.q(34, 48));
        let x = random_bits(&mut rng, n);
        let op = *rng.pick(ops);
        let is_div = matches!(op, "div" | "rem" | "div_rem");
        let y = operand_for(&mut rng, n, 48, is_div);
        if is_div && y.iter().all(|b| *b == 0) {
            continue;
        }
        let forms: &[&str] = if op == "div_rem" { &[""] } else { &FORMS6 };
        sink.emit(m.run(&Case::new(op, x).y(YSpec::Bits(y)).forms(forms)));
    }
}

pub fn drive_c01(t: &Tier, m: &mut Matrix, sink: &mut Sink) {
    binop_driver(t, m, sink, &["add", "sub", "mul"], &["mul"], false);
}
pub fn drive_c02(t: &Tier, m: &mut Matrix, sink: &mut Sink) {
    binop_driver(t, m, sink, &["div", "rem", "div_rem"], &["div", "rem", "div_rem"], true);
}
pub fn drive_c04(t: &Tier, m: &mut Matrix, sink: &mut Sink) {
    binop_driver(t, m, sink, &["and", "or", "xor"], &[], false);
    let mut rng = Rng::new(t.seed ^ 0xC04);
    let xs = pool(t, &mut rng, t.q(129, 257), t.quick, 2);
    for x in xs {
        sink.emit(m.run(&Case::new("not", x).forms(&["v", "r"])));
    }
}

// ------------------------------------------------------------------------------------------------
// C05: shifts
// ------------------------------------------------------------------------------------------------

pub fn shift_amounts(n: usize, ty: IntTy) -> Vec<u128> {
    let mut ks: Vec<u128> = vec![0, 1, 2, 7, 8, 9, 63, 64, 65, 127, 128, 129];
    for d in [n.saturating_sub(1), n, n + 1, n / 2, n + 64] {
        ks.push(d as u128);
    }
    // extremes of the amount type, amounts beyond the platform word
    ks.extend([ty.max(), ty.max() - 1, ty.max() >> 1, 255, 256, 65535, 65536]);
    ks.extend([1u128 << 32, (1u128 << 32) - 1, (1u128 << 63), (1u128 << 64) - 1, 1u128 << 64, (1u128 << 64) + 1, (1u128 << 64) + 8, u128::MAX]);
    ks.retain(|k| *k <= ty.max());
    ks.sort();
    ks.dedup();
    ks
}

pub fn drive_c05(t: &Tier, m: &mut Matrix, sink: &mut Sink) {
    let mut rng = Rng::new(t.seed ^ 0xC05);
    let xs = pool(t, &mut rng, t.q(129, 257), t.quick, t.q(1, 5));
    for x in &xs {
        for op in ["shl", "shr"] {
            let ty = *rng.pick(&ALL_INTS);
            let ks = shift_amounts(x.len(), ty);
            for k in sample(&mut rng, &ks, t.q(4, 24)) {
                let a = Args { n: Some(k), ity: Some(ty), ..Default::default() };
                sink.emit(m.run(&Case::new(op, x.clone()).a(a).forms(&FORMS6)));
            }
        }
        for op in ["shl_in", "shr_in"] {
            for b in [0u8, 1] {
                let a = Args { bit: Some(b), ..Default::default() };
                sink.emit(m.run(&Case::new(op, x.clone()).a(a)));
            }
        }
    }
    // every amount type at its extremes, on a handful of subjects
    for x in sample(&mut rng, &xs, t.q(6, 120)) {
        for ty in ALL_INTS {
            for k in shift_amounts(x.len(), ty).into_iter().rev().take(t.q(4, 9)) {
                for op in ["shl", "shr"] {
                    let a = Args { n: Some(k), ity: Some(ty), ..Default::default() };
                    sink.emit(m.run(&Case::new(op, x.clone()).a(a).forms(&FORMS6)));
                }
            }
        }
    }
}

// ------------------------------------------------------------------------------------------------
// C06: rotations
// ------------------------------------------------------------------------------------------------

pub fn drive_c06(t: &Tier, m: &mut Matrix, sink: &mut Sink) {
    let mut rng = Rng::new(t.seed ^ 0xC06);
    let mut xs = pool(t, &mut rng, t.q(129, 257), t.quick, t.q(2, 10));
    for n in [24usize, 48, 96, 384, 512] {
        xs.extend(patterns_small(n));
        xs.push(random_bits(&mut rng, n));
    }
    for x in &xs {
        let n = x.len();
        let mut ks: Vec<usize> = vec![0, 1, 2, 7, 8, 9, 15, 16, 17, 31, 32, 33, 63, 64, 65, 127, 128, 129, n / 2, n.saturating_sub(1), n, n.saturating_sub(8), n.saturating_sub(64)];
        ks.retain(|k| *k <= n);
        ks.sort();
        ks.dedup();
        // always: the ends of the range and every whole-word amount; plus a sample of the rest
        let mut chosen: Vec<usize> = ks.iter().copied().filter(|k| [0, 1, n.saturating_sub(1), n, 8, 16, 24, 32, 48, 64, 96, 128, 192].contains(k)).collect();
        chosen.extend(sample(&mut rng, &ks, t.q(3, 24)));
        if n >= 24 {
            chosen.extend([24usize, 48, 96, 192, 256, 384].iter().copied().filter(|k| *k <= n));
        }
        chosen.sort();
        chosen.dedup();
        for k in chosen {
            for op in ["rotl", "rotr"] {
                sink.emit(m.run(&Case::new(op, x.clone()).a(Args::n(k))));
            }
        }
    }
}

// ------------------------------------------------------------------------------------------------
// C08: slicing and splitting
// ------------------------------------------------------------------------------------------------

pub fn drive_c08(t: &Tier, m: &mut Matrix, sink: &mut Sink) {
    let mut rng = Rng::new(t.seed ^ 0xC08);
    let xs = pool(t, &mut rng, t.q(193, 257), t.quick, t.q(2, 8));
    for x in &xs {
        let n = x.len();
        let mut pts: Vec<usize> = BOUNDARY.iter().copied().filter(|p| *p <= n).collect();
        pts.extend([n, n.saturating_sub(1), n / 2]);
        pts.sort();
        pts.dedup();
        for _ in 0..t.q(4, 40) {
            let s = *rng.pick(&pts);
            let e = *rng.pick(&pts);
            let (s, e) = if s <= e { (s, e) } else { (e, s) };
            let a = Args { i: Some(s), j: Some(e), ..Default::default() };
            sink.emit(m.run(&Case::new("copy_range", x.clone()).a(a)));
        }
        // the degenerate ranges
        for (s, e) in [(0, 0), (n, n), (0, n)] {
            let a = Args { i: Some(s), j: Some(e), ..Default::default() };
            sink.emit(m.run(&Case::new("copy_range", x.clone()).a(a)));
        }
        for i in sample(&mut rng, &pts, t.q(3, 16)) {
            let a = Args { i: Some(i), ..Default::default() };
            sink.emit(m.run(&Case::new("split_off", x.clone()).a(a.clone())));
            sink.emit(m.run(&Case::new("split", x.clone()).a(a)));
        }
        sink.emit(m.run(&Case::new("first", x.clone())));
        sink.emit(m.run(&Case::new("last", x.clone())));
    }
}

// ------------------------------------------------------------------------------------------------
// C09: comparisons
// ------------------------------------------------------------------------------------------------

pub fn drive_c09(t: &Tier, m: &mut Matrix, sink: &mut Sink) {
    let mut rng = Rng::new(t.seed ^ 0xC09);
    m.ny = t.q(8, 16); // comparisons are cheap: many operand kinds per subject kind (all ordered type pairs come up)
    let xs = pool(t, &mut rng, t.q(193, 257), t.quick, t.q(1, 6));
    let ops = ["eq", "ne", "lt", "le", "gt", "ge", "pcmp"];
    for x in &xs {
        let n = x.len();
        let mut ys: Vec<Bits> = Vec::new();
        // the same value at other lengths
        for d in [0usize, 1, 8, 64, 65] {
            let mut y = x.clone();
            y.extend(std::iter::repeat(0).take(d));
            ys.push(y);
        }
        let sig = n - x.iter().rev().take_while(|b| **b == 0).count();
        ys.push(x[..sig].to_vec());
        // the low part only, at word-sized lengths: the values differ exactly in the longer operand's high part
        for cut in [8usize, 16, 32, 64, 128, n / 2] {
            if cut < n {
                ys.push(x[..cut].to_vec());
            }
        }
        // one bit different, at the bottom, at the top, at a word boundary
        for p in [0usize, n.saturating_sub(1), 63, 64, 7, 8] {
            if p < n {
                let mut y = x.clone();
                y[p] = 1 - y[p];
                ys.push(y);
            }
        }
        ys.push(operand_for(&mut rng, n, 257, false));
        ys.push(operand_for(&mut rng, n, 257, false));
        for y in sample(&mut rng, &ys, t.q(7, 19)) {
            let op = *rng.pick(&ops);
            sink.emit(m.run(&Case::new(op, x.clone()).y(YSpec::Bits(y.clone()))));
            // and the reverse operand order with another operator
            let op2 = *rng.pick(&ops);
            sink.emit(m.run(&Case::new(op2, y).y(YSpec::Bits(x.clone()))));
        }
    }
    // Ord::cmp within each type, all operators on one pair
    for _ in 0..t.q(150, 8000) {
        let n = random_len(&mut rng, 257);
        let x = random_bits(&mut rng, n);
        let y = if rng.chance(1, 3) { x.clone() } else { operand_for(&mut rng, n, 200, false) };
        for k in ALL_KINDS {
            if k.admits(x.len()) && k.admits(y.len()) && rng.chance(1, 4) {
                sink.emit(m.run(&Case::new("cmp", x.clone()).y(YSpec::Bits(y.clone())).xk(vec![k]).yk(vec![k])));
            }
        }
        for op in ops {
            if rng.chance(1, 3) {
                sink.emit(m.run(&Case::new(op, x.clone()).y(YSpec::Bits(y.clone()))));
            }
        }
    }
}

// ------------------------------------------------------------------------------------------------
// C16: bit-count queries
// ------------------------------------------------------------------------------------------------

pub const COUNT_OPS: [&str; 6] = ["leading_zeros", "leading_ones", "trailing_zeros", "trailing_ones", "significant_bits", "is_zero"];

pub fn drive_c16(t: &Tier, m: &mut Matrix, sink: &mut Sink) {
    let mut rng = Rng::new(t.seed ^ 0xC16);
    let mut xs = pool(t, &mut rng, t.q(193, 257), false, t.q(2, 12));
    // runs ending at, one before and one after each word boundary, interrupted by one opposite bit
    for n in lattice_lens(t.q(193, 257)) {
        for k in BOUNDARY.iter().copied().filter(|k| *k <= n) {
            for fillb in [0u8, 1] {
                let lo: Bits = (0..n).map(|i| if i < k { fillb } else { 1 - fillb }).collect();
                let hi: Bits = (0..n).map(|i| if i >= n - k { fillb } else { 1 - fillb }).collect();
                xs.push(lo.clone());
                xs.push(hi);
                if k + 1 < n {
                    let mut v = lo;
                    v[k + 1] = fillb; // run interrupted by a single opposite bit
                    xs.push(v);
                    // the run, one opposite bit, then anything: the words beyond the end of the
                    // run start / end with either bit
                    for _ in 0..2 {
                        let r = random_bits_uniform(&mut rng, n);
                        xs.push((0..n).map(|i| if i < k { fillb } else if i == k { 1 - fillb } else { r[i] }).collect());
                        xs.push((0..n).map(|i| if i >= n - k { fillb } else if i == n - k - 1 { 1 - fillb } else { r[i] }).collect());
                    }
                }
            }
        }
    }
    xs.sort();
    xs.dedup();
    let xs = if t.quick { sample(&mut rng, &xs, 1600) } else { xs };
    for x in xs {
        for op in COUNT_OPS {
            sink.emit(m.run(&Case::new(op, x.clone())));
        }
    }
}

// ------------------------------------------------------------------------------------------------
// C13: bytes and streams
// ------------------------------------------------------------------------------------------------

pub fn drive_c13(t: &Tier, m: &mut Matrix, sink: &mut Sink) {
    let mut rng = Rng::new(t.seed ^ 0xC13);
    // every length 0..Ls, not only multiples of 8, plus the lattice
    let mut xs: Vec<Bits> = Vec::new();
    for n in 0..t.q(26, 140) {
        xs.push(ones(n));
        xs.push(random_bits(&mut rng, n));
        xs.push(random_bits(&mut rng, n));
    }
    xs.extend(pool(t, &mut rng, t.q(193, 257), true, 1));
    for x in &xs {
        for e in ['L', 'B'] {
            let a = Args { e: Some(e), ..Default::default() };
            sink.emit(m.run(&Case::new("to_vec", x.clone()).a(a.clone())));
            sink.emit(m.run(&Case::new("write", x.clone()).a(a)));
        }
    }
    // beyond the listed properties: write() to a writer that fails after k bytes propagates the error
    for x in sample(&mut rng, &xs, t.q(40, 200)) {
        let nb = (x.len() + 7) / 8;
        for k in [0usize, 1, nb.saturating_sub(1), nb, nb + 1] {
            let a = Args { e: Some(if k % 2 == 0 { 'L' } else { 'B' }), n: Some(k as u128), ..Default::default() };
            sink.emit(m.run(&Case::new("write_fail", x.clone()).a(a)));
        }
        for chunk in [1usize, 3, 7] {
            for e in ['L', 'B'] {
                let a = Args { e: Some(e), n: Some(chunk as u128), ..Default::default() };
                sink.emit(m.run(&Case::new("write_chunk", x.clone()).a(a)));
            }
        }
    }
    // from_bytes: byte strings of 0..k bytes
    for nb in (0..t.q(20, 36)).chain([24, 32, 33]) {
        for _ in 0..t.q(2, 5) {
            let bytes: Vec<u8> = (0..nb).map(|i| if rng.chance(1, 4) { 0xFF } else if rng.chance(1, 4) { 0 } else { (rng.next() as u8) | ((i == nb - 1) as u8) << 7 }).collect();
            for e in ['L', 'B'] {
                for byval in [false, true] {
                    let a = Args { e: Some(e), bytes: Some(bytes.clone()), byval, ..Default::default() };
                    sink.emit(m.run(&Case::new("from_bytes", vec![]).a(a).capsens()));
                }
            }
        }
    }
    // absurd lengths must be refused by a fixed vector (no arithmetic on the length before the capacity test)
    for n in [usize::MAX, usize::MAX - 1, usize::MAX - 6, usize::MAX - 7, usize::MAX - 8, usize::MAX / 2 + 1, 1usize << 32] {
        for e in ['L', 'B'] {
            let a = Args { e: Some(e), bytes: Some(vec![0xFF; 4]), n: Some(n as u128), ..Default::default() };
            let fixed: Vec<Kind> = ALL_KINDS.iter().copied().filter(|k| k.is_fixed()).collect();
            sink.emit(m.run(&Case::new("read", vec![]).a(a).capsens().xk(fixed)));
        }
    }
    // read: streams with surplus set bits in the top byte, short input, extra input
    let mut lens: Vec<usize> = (0..t.q(34, 150)).collect();
    lens.extend(lattice_lens(t.q(193, 257)));
    for n in lens {
        let nb = (n + 7) / 8;
        for extra in [0isize, 2, -1] {
            let sl = (nb as isize + extra).max(0) as usize;
            if extra < 0 && nb == 0 {
                continue;
            }
            for style in 0..t.q(2, 6) {
                let stream: Vec<u8> = (0..sl).map(|_| if style == 0 { 0xFF } else { rng.next() as u8 }).collect();
                for e in ['L', 'B'] {
                    // the reader delivers everything at once, or at most 1 / 3 bytes per call
                    let chunk = [None, Some(1usize), Some(3)][(n + style) % 3];
                    let a = Args { e: Some(e), bytes: Some(stream.clone()), n: Some(n as u128), j: chunk, ..Default::default() };
                    sink.emit(m.run(&Case::new("read", vec![]).a(a).capsens()));
                }
            }
        }
    }
}

// ------------------------------------------------------------------------------------------------
// C14: formatting
// ------------------------------------------------------------------------------------------------

pub fn fmt_specs() -> Vec<FmtSpec> {
    crate::fmtgen::FMT_MATRIX
        .iter()
        .map(|(base, alt, plus, zero, has_w, fill, align)| FmtSpec { base: *base, alt: *alt, plus: *plus, zero: *zero, width: if *has_w { Some(0) } else { None }, fill: *fill, align: *align })
        .collect()
}

pub fn drive_c14(t: &Tier, m: &mut Matrix, sink: &mut Sink) {
    let mut rng = Rng::new(t.seed ^ 0xC14);
    let specs = fmt_specs();
    let mut xs: Vec<Bits> = Vec::new();
    // all values of up to 5 bits at several lengths (leading-zero digits, zero top nibble / octal group)
    for n in 0..t.q(5, 7) {
        for v in all_of_len(n) {
            for pad in [0usize, 1, 3, 4] {
                let mut b = v.clone();
                b.extend(std::iter::repeat(0).take(pad));
                xs.push(b);
            }
        }
    }
    xs.extend(pool(t, &mut rng, t.q(130, 600), true, 1));
    xs.sort();
    xs.dedup();
    // beyond the listed properties: Display of Bit and of the error type
    for b in [0u8, 1] {
        sink.emit(m.run(&Case::new("bit_display", vec![]).a(Args { bit: Some(b), ..Default::default() }).xk(vec![Kind::D])));
    }
    for i in [0usize, 7, 123456] {
        sink.emit(m.run(&Case::new("err_display", vec![]).a(Args { i: Some(i), ..Default::default() }).xk(vec![Kind::D])));
    }
    // decimal digits of the largest value of EVERY length (digit-count estimates go wrong at isolated
    // lengths), and small values in long vectors (whole zero words above the value) in every base
    let plain = |base: char| FmtSpec { base, alt: false, plus: false, zero: false, width: None, fill: ' ', align: '-' };
    for n in 0..=t.q(700, 1400) {
        let ks: Vec<Kind> = ALL_KINDS.iter().copied().filter(|k| k.admits(n) && (!k.is_fixed() || n % 8 == 0 || n > 256)).collect();
        sink.emit(m.run(&Case::new("fmt", ones(n)).a(Args { fmt: Some(plain('d')), ..Default::default() }).xk(ks)));
    }
    for n in [64usize, 65, 128, 129, 192, 193, 256, 320, 400, 512] {
        for v in [vec![1u8], vec![1, 0, 1, 1, 0, 0, 1, 1, 1, 1, 0, 1, 0, 1, 0, 1], ones(8), ones(63), ones(64), ones(65)] {
            if v.len() >= n {
                continue;
            }
            let mut x = v.clone();
            x.resize(n, 0);
            for base in ['d', 'b', 'o', 'x', 'X'] {
                for alt in [false, true] {
                    let mut sp = plain(base);
                    sp.alt = alt;
                    sink.emit(m.run(&Case::new("fmt", x.clone()).a(Args { fmt: Some(sp), ..Default::default() })));
                }
            }
        }
    }
    // values with all-zero digit groups: a * 10^e + b (chunked decimal conversion drops or mis-pads a
    // zero chunk), and the same idea for octal groups that straddle a storage-word boundary
    {
        let p = |e: u32| 10u128.pow(e);
        let mut vals: Vec<u128> = Vec::new();
        for e in [9u32, 10, 18, 19, 20, 27, 36, 38] {
            for a in [1u128, 2, 9, 42, 99] {
                for b in [0u128, 1, 7, 10, 999_999_999] {
                    if let Some(v) = a.checked_mul(p(e)).and_then(|v| v.checked_add(b)) {
                        vals.push(v);
                    }
                }
            }
        }
        vals.push(p(19) * 42 + p(18));
        vals.push(p(38) + p(19));
        vals.push(p(38) * 3 + 5);
        vals.push(p(19) - 1);
        vals.push(p(38) - 1);
        vals.sort();
        vals.dedup();
        for (i, v) in vals.iter().copied().enumerate() {
            let sig = 128 - v.leading_zeros() as usize;
            for n in [sig, 128, 129, 130, 200, 256] {
                if n < sig || (t.quick && (i + n) % 3 != 0 && n != 129) {
                    continue;
                }
                let mut x = int_bits(v, 128);
                x.resize(n, 0);
                for (j, base) in ['d', 'd', 'o'].iter().copied().enumerate() {
                    let mut sp = plain(base);
                    sp.zero = j == 1;
                    sp.width = if j == 1 { Some(45) } else { None };
                    sink.emit(m.run(&Case::new("fmt", x.clone()).a(Args { fmt: Some(sp), ..Default::default() })));
                }
            }
        }
        // a top octal / hex digit that straddles a word boundary above an all-zero word
        for n in [65usize, 66, 67, 129, 130, 131, 193, 257, 258] {
            for top in 1..(1usize << (n - (n - 1) / 64 * 64).min(3)) {
                let mut x = zeros(n);
                let base_i = (n - 1) / 64 * 64;
                for k in 0..3 {
                    if (top >> k) & 1 == 1 && base_i + k < n {
                        x[base_i + k] = 1;
                    }
                }
                for base in ['o', 'x', 'd', 'b'] {
                    sink.emit(m.run(&Case::new("fmt", x.clone()).a(Args { fmt: Some(plain(base)), ..Default::default() })));
                }
            }
        }
    }
    let per = t.q(3, 30);
    let xs = if t.quick { sample(&mut rng, &xs, 500) } else { xs };
    for x in xs {
        for i in 0..per {
            let mut s = rng.pick(&specs).clone();
            if i == 0 {
                // plain, no options: the common case, each base in turn
                s = FmtSpec { base: ['d', 'b', 'o', 'x', 'X'][m.rot % 5], alt: false, plus: false, zero: false, width: None, fill: ' ', align: '-' };
            }
            if x.len() > 300 && s.base == 'd' && t.quick {
                s.base = 'x';
            }
            if s.width.is_some() {
                let natural = match s.base {
                    'b' => x.len(),
                    'o' => x.len() / 3,
                    'd' => x.len() * 3 / 10,
                    _ => x.len() / 4,
                };
                s.width = Some(match rng.below(4) {
                    0 => rng.below(6),
                    1 => natural + rng.below(4),
                    2 => natural + 5 + rng.below(12),
                    _ => rng.below(natural + 8),
                });
            }
            let a = Args { fmt: Some(s), ..Default::default() };
            sink.emit(m.run(&Case::new("fmt", x.clone()).a(a)));
        }
    }
}

// ------------------------------------------------------------------------------------------------
// C15: parsing
// ------------------------------------------------------------------------------------------------

fn chars(s: &str) -> Vec<String> {
    s.chars().map(|c| c.to_string()).collect()
}

pub fn drive_c15(t: &Tier, m: &mut Matrix, sink: &mut Sink) {
    let mut rng = Rng::new(t.seed ^ 0xC15);
    // offending characters: near misses, signs, non-ASCII letters and digits of other scripts, control
    // characters and characters whose low byte (or case-folded low byte) is an ASCII digit
    let bad = ["x", "2", " ", "g", "G", "é", "😀", "-", "+", "_", "٣", "O", "\u{10}", "\u{11}", "\u{19}", "１", "０", "ı", "Ł", "`", "@", "/", ":", "ａ", "Ａ", "\u{661}", "\u{131}"];
    let hexd: Vec<String> = chars("0123456789abcdefABCDEF");
    fn run_parse(m: &mut Matrix, sink: &mut Sink, op: &'static str, cs: Vec<String>, rng: &mut Rng) {
        let a = Args { chars: Some(cs), byval: rng.chance(1, 2), ..Default::default() };
        sink.emit(m.run(&Case::new(op, vec![]).a(a).capsens()));
    }
    // all strings over {0,1} up to 4 chars, then with one invalid character at every position
    for n in 0..t.q(4, 7) {
        for v in all_of_len(n) {
            let s: Vec<String> = v.iter().map(|b| b.to_string()).collect();
            run_parse(m, sink, "from_binary", s.clone(), &mut rng);
            for p in 0..n {
                let mut s2 = s.clone();
                s2[p] = rng.pick(&bad).to_string();
                run_parse(m, sink, "from_binary", s2, &mut rng);
            }
        }
    }
    // lengths around every capacity (valid strings only beyond the capacity), invalid at boundaries
    let caps = [8usize, 16, 24, 32, 64, 128, 192, 256];
    let mut lens: Vec<usize> = caps.iter().flat_map(|c| [c - 1, *c, c + 1]).collect();
    lens.extend([0, 1, 2, 63, 65, 127, 129, 130, 200, 300]);
    for n in lens.iter().copied() {
        for _ in 0..t.q(1, 3) {
            let s: Vec<String> = random_bits(&mut rng, n).iter().map(|b| b.to_string()).collect();
            run_parse(m, sink, "from_binary", s.clone(), &mut rng);
            if n > 0 {
                // a string that fits everywhere it is driven: only kinds with capacity >= n see the bad char
                let rb = rng.below(n);
                let p = *rng.pick(&[0, n - 1, n / 2, rb]);
                let mut s2 = s.clone();
                s2[p] = rng.pick(&bad).to_string();
                let a = Args { chars: Some(s2), byval: false, ..Default::default() };
                let ks: Vec<Kind> = ALL_KINDS.iter().copied().filter(|k| k.admits(n)).collect();
                sink.emit(m.run(&Case::new("from_binary", vec![]).a(a).capsens().xk(ks)));
            }
        }
    }
    // a leading sign is not a digit (integer parsers accept it)
    for (op, per) in [("from_binary", 1usize), ("from_hex", 4)] {
        for n in [1usize, 2, 3, 8, 16, 17, 32, 33, 64, 65, 128, 129] {
            for sign in ["+", "-"] {
                let mut s2: Vec<String> = (0..n).map(|i| if i % 2 == 0 { "1".to_string() } else { "0".to_string() }).collect();
                s2[0] = sign.to_string();
                let a = Args { chars: Some(s2), byval: n % 2 == 0, ..Default::default() };
                let ks: Vec<Kind> = ALL_KINDS.iter().copied().filter(|k| k.admits(n * per)).collect();
                sink.emit(m.run(&Case::new(op, vec![]).a(a).capsens().xk(ks)));
            }
        }
    }
    // a string of exactly `capacity` characters whose offending character takes several bytes
    for k in ALL_KINDS.iter().copied().filter(|k| k.is_fixed()) {
        let cap = k.fixed_cap().unwrap();
        for (op, per) in [("from_binary", 1usize), ("from_hex", 4)] {
            let n = cap / per;
            for badc in ["é", "😀", "１"] {
                for p in [0, n - 1] {
                    let mut s2: Vec<String> = (0..n).map(|i| if i % 3 == 0 { "1".to_string() } else { "0".to_string() }).collect();
                    s2[p] = badc.to_string();
                    let a = Args { chars: Some(s2), byval: false, ..Default::default() };
                    sink.emit(m.run(&Case::new(op, vec![]).a(a).capsens().xk(vec![k])));
                }
            }
        }
    }
    // hex
    for n in 0..t.q(3, 4) {
        let alphabet = ["0", "9", "a", "F", "g", "é", "😀", "7"];
        let total = alphabet.len().pow(n as u32);
        for idx in 0..total {
            let mut s = Vec::new();
            let mut r = idx;
            for _ in 0..n {
                s.push(alphabet[r % alphabet.len()].to_string());
                r /= alphabet.len();
            }
            // too-long-and-invalid strings are unspecified: drive invalid strings only where they fit
            let valid = s.iter().all(|c| hexd.contains(c));
            let a = Args { chars: Some(s), byval: rng.chance(1, 2), ..Default::default() };
            let mut c = Case::new("from_hex", vec![]).a(a).capsens();
            if !valid {
                c = c.xk(ALL_KINDS.iter().copied().filter(|k| k.admits(4 * n)).collect());
            }
            sink.emit(m.run(&c));
        }
    }
    let mut hlens: Vec<usize> = caps.iter().flat_map(|c| [c / 4 - 1, c / 4, c / 4 + 1]).collect();
    hlens.extend([0, 1, 15, 17, 31, 33, 50, 70]);
    for n in hlens {
        for _ in 0..t.q(1, 3) {
            let s: Vec<String> = (0..n).map(|_| rng.pick(&hexd).clone()).collect();
            run_parse(m, sink, "from_hex", s.clone(), &mut rng);
            if n > 0 {
                let p = *rng.pick(&[0, n - 1, n / 2]);
                let mut s2 = s.clone();
                s2[p] = rng.pick(&bad).to_string();
                let a = Args { chars: Some(s2), byval: false, ..Default::default() };
                let ks: Vec<Kind> = ALL_KINDS.iter().copied().filter(|k| k.admits(4 * n)).collect();
                sink.emit(m.run(&Case::new("from_hex", vec![]).a(a).capsens().xk(ks)));
            }
        }
    }
    // zero-padded strings: z leading (or trailing) zero digits, then a non-zero digit and random
    // digits; z around every multiple of the storage-word digit count
    for (op, per, digits) in [("from_binary", 1usize, chars("01")), ("from_hex", 4, hexd.clone())] {
        let nz: Vec<String> = digits.iter().filter(|d| *d != "0").cloned().collect();
        for n in [2usize, 8, 9, 16, 17, 18, 31, 32, 33, 34, 48, 49, 63, 64, 65, 66, 80, 127, 128, 129, 130, 200] {
            let mut zs: Vec<usize> = vec![1, 2, n - 1, n / 2];
            for w in [8 / per, 16 / per, 32 / per, 64 / per, 128 / per] {
                zs.extend([w.saturating_sub(1), w, w + 1, (n % w.max(1)), (n - 1) % w.max(1) + 1]);
            }
            zs.retain(|z| *z >= 1 && *z < n);
            zs.sort();
            zs.dedup();
            for z in zs {
                for lead in [true, false] {
                    let mut s: Vec<String> = (0..n).map(|_| rng.pick(&digits).clone()).collect();
                    if lead {
                        for c in s.iter_mut().take(z) {
                            *c = "0".into();
                        }
                        s[z] = rng.pick(&nz).clone();
                    } else {
                        for c in s.iter_mut().skip(n - z) {
                            *c = "0".into();
                        }
                        s[n - z - 1] = rng.pick(&nz).clone();
                    }
                    run_parse(m, sink, op, s, &mut rng);
                }
            }
        }
    }
    // several offending characters in one string, far apart (in different storage words' worth of digits):
    // the index reported is that of the FIRST one whatever the order in which the digits are processed
    for (op, per, digits) in [("from_binary", 1usize, chars("01")), ("from_hex", 4, hexd.clone())] {
        for n in [2usize, 5, 16, 17, 18, 32, 33, 34, 40, 64, 65, 66, 100, 129, 200] {
            for rep in 0..t.q(2, 6) {
                let mut s: Vec<String> = (0..n).map(|_| rng.pick(&digits).clone()).collect();
                let k = 2 + rep % 2;
                let mut ps: Vec<usize> = (0..k).map(|_| rng.below(n)).collect();
                if rep == 0 {
                    ps = vec![n / 3, n - 1];
                }
                for p in &ps {
                    s[*p] = rng.pick(&bad).to_string();
                }
                let a = Args { chars: Some(s), byval: rep % 2 == 0, ..Default::default() };
                let ks: Vec<Kind> = ALL_KINDS.iter().copied().filter(|k| k.admits(n * per)).collect();
                sink.emit(m.run(&Case::new(op, vec![]).a(a).capsens().xk(ks)));
            }
        }
    }
    // parse(format(v)) has the value of v: {:b} {:x} {:X} of lattice values, re-parsed
    let xs = pool(t, &mut rng, t.q(129, 257), true, 1);
    for x in sample(&mut rng, &xs, t.q(60, 1500)) {
        for (base, op) in [('b', "from_binary"), ('x', "from_hex"), ('X', "from_hex")] {
            let spec = FmtSpec { base, alt: false, plus: false, zero: false, width: None, fill: ' ', align: '-' };
            let k = *rng.pick(&ALL_KINDS.iter().copied().filter(|k| k.admits(x.len())).collect::<Vec<_>>());
            let mut v = AnyBv::fresh(k, &x);
            let a = Args { fmt: Some(spec), ..Default::default() };
            if let Out::Str(cs) = exec(&mut v, &Y::None, "fmt", "", &a) {
                let a = Args { chars: Some(cs), byval: false, ..Default::default() };
                sink.emit(m.run(&Case::new(op, vec![]).a(a).capsens()));
            }
        }
    }
}

// ------------------------------------------------------------------------------------------------
// C11: native integers
// ------------------------------------------------------------------------------------------------

pub fn drive_c11(t: &Tier, m: &mut Matrix, sink: &mut Sink) {
    let mut rng = Rng::new(t.seed ^ 0xC11);
    // integers -> vectors
    for ty in ALL_INTS {
        let mut vals = int_lattice(ty.width());
        if ty == IntTy::U8 {
            vals = (0..256).collect();
        }
        if ty == IntTy::U16 {
            if t.quick {
                vals.extend((0..t.q(300, 0)).map(|_| rng.next() as u128 & 0xFFFF));
            } else {
                vals = (0..65536).collect();
            }
        }
        for _ in 0..t.q(10, 400) {
            vals.push(rng.u128() & ty.max());
        }
        for v in vals {
            let a = Args { byval: rng.chance(1, 2), ..Default::default() };
            sink.emit(m.run(&Case::new("from_int", vec![]).y(YSpec::Int(ty, v)).a(a).capsens()));
        }
    }
    // slices of 0..5 elements of each element type
    for ty in ALL_INTS {
        for count in 0..6 {
            for _ in 0..t.q(2, 30) {
                let lat = int_lattice(ty.width());
                let els: Vec<Bits> = (0..count).map(|_| int_bits(if rng.chance(1, 2) { *rng.pick(&lat) } else { rng.u128() & ty.max() }, ty.width())).collect();
                let a = Args { els: Some(els), ity: Some(ty), ..Default::default() };
                sink.emit(m.run(&Case::new("from_slice", vec![]).a(a).capsens()));
            }
        }
    }
    // vectors -> integers: every small vector, lattice beyond, including empty
    let mut xs: Vec<Bits> = Vec::new();
    for n in 0..t.q(7, 12) {
        xs.extend(all_of_len(n));
    }
    xs.extend(pool(t, &mut rng, t.q(193, 257), t.quick, t.q(2, 6)));
    for x in xs {
        for ty in ALL_INTS {
            if x.len() > 10 && !rng.chance(1, 2) {
                continue;
            }
            let a = Args { ity: Some(ty), n: Some(ty.width() as u128), byval: rng.chance(1, 2), ..Default::default() };
            sink.emit(m.run(&Case::new("to_int", x.clone()).a(a)));
        }
    }
    // values whose low half-word / word / integer-width bits are all zero: a conversion that looks at
    // the low storage word only, or stops at the first zero word, gets these wrong
    for ty in ALL_INTS {
        let w = ty.width();
        let mut es: Vec<usize> = vec![w / 2, w - 1, w, w + 1, 32, 63, 64, 65, 127, 128];
        es.sort();
        es.dedup();
        for e in es {
            for n in [e + 1, e + 2, 64, 65, 128, 129, 200, 256] {
                if n <= e {
                    continue;
                }
                for second in [None, Some(e / 2), Some(n - 1)] {
                    let mut x = zeros(n);
                    x[e] = 1;
                    if let Some(s) = second {
                        if s == e || s >= n {
                            continue;
                        }
                        x[s] = 1;
                    }
                    for byval in [false, true] {
                        let a = Args { ity: Some(ty), n: Some(w as u128), byval, ..Default::default() };
                        sink.emit(m.run(&Case::new("to_int", x.clone()).a(a)));
                    }
                }
            }
        }
    }
}

/// Bit <-> bool / integer conversions (C11, last clause).  Returns events for the "bit" pseudo-register.
pub fn bit_conversion_events(dbg: bool) -> Vec<Value> {
    use bva::Bit;
    let mut evs = Vec::new();
    let mut push = |op: &str, input: u128, ity: &str, got: u8| {
        evs.push(json!({"op": op, "f": "", "r": "bit", "nb": 1, "cf": "fun", "dbg": dbg as u8,
            "x": {"k": "Bit", "cl": "B", "c": 1, "b": []}, "y": ydesc_none(),
            "a": {"n": input.min(BIG) as u64, "nz": (input != 0) as u8, "ity": ity},
            "px": {"b": [], "n": 0, "c": 1, "m": "-", "ok": 1}, "py": [], "o": Out::Bit(got).to_json(), "cov": 1}));
    };
    for v in [0u128, 1, 2, 3, 127, 128, 255, 256, 65535, 65536, u32::MAX as u128, u64::MAX as u128, u128::MAX, 1 << 64, 1 << 127] {
        macro_rules! conv {
            ($($T:ty),+) => { $(
                if v <= <$T>::MAX as u128 {
                    push("bit_from_int", v, stringify!($T), ub(Bit::from(v as $T)));
                }
            )+ };
        }
        conv!(u8, u16, u32, u64, u128, usize);
    }
    push("bit_from_int", 0, "bool", ub(Bit::from(false)));
    push("bit_from_int", 1, "bool", ub(Bit::from(true)));
    for b in [0u8, 1] {
        let bb = bit(b);
        push("bit_to_int", b as u128, "u8", u8::from(bb));
        push("bit_to_int", b as u128, "u16", u16::from(bb) as u8);
        push("bit_to_int", b as u128, "u32", u32::from(bb) as u8);
        push("bit_to_int", b as u128, "u64", u64::from(bb) as u8);
        push("bit_to_int", b as u128, "u128", u128::from(bb) as u8);
        push("bit_to_int", b as u128, "usize", usize::from(bb) as u8);
        push("bit_to_int", b as u128, "bool", bool::from(bb) as u8);
    }
    evs
}

// ------------------------------------------------------------------------------------------------
// C12: conversions between implementations
// ------------------------------------------------------------------------------------------------

pub fn drive_c12(t: &Tier, m: &mut Matrix, sink: &mut Sink) {
    let mut rng = Rng::new(t.seed ^ 0xC12);
    let mut xs = pool(t, &mut rng, t.q(257, 257), t.quick, t.q(1, 6));
    for n in 0..t.q(12, 30) {
        xs.push(random_bits(&mut rng, n));
    }
    for x in &xs {
        for target in ALL_KINDS {
            if t.quick && !rng.chance(1, 2) {
                continue;
            }
            for byval in [false, true] {
                let a = Args { byval, ..Default::default() };
                // the outcome depends on the TARGET's capacity; the key carries the target in `a`
                sink.emit(m.run(&Case::new("convert", x.clone()).y(YSpec::Target(target)).a(a)));
            }
        }
        sink.emit(m.run(&Case::new("new_inner", x.clone())));
        sink.emit(m.run(&Case::new("clone", x.clone())));
        // Clone::clone_from into a destination that is longer / shorter / differently prepared
        {
            let n = x.len();
            let rb = rng.below(n + 2);
            m.all_preps = true;
            for dl in [0usize, n / 2, n, n + 1, n + 64, n + 70, rb, 200] {
                let dest = if dl % 2 == 0 { ones(dl) } else { random_bits(&mut rng, dl) };
                sink.emit(m.run(&Case::new("clone_from", dest).y(YSpec::Bits(x.clone()))));
            }
            m.all_preps = false;
        }
        // beyond the listed properties: a clone is independent of its source; Debug never panics
        sink.emit(m.run(&Case::new("clone_push", x.clone()).a(Args { bit: Some((x.len() % 2) as u8), ..Default::default() })));
        sink.emit(m.run(&Case::new("debug_fmt", x.clone())));
    }
}

/// C12, wide instantiations outside the kind matrix: `Bvf<u8, 32>`, `Bvf<u16, 16>`, `Bvf<u32, 8>` (256 bits
/// of narrow words: the re-chunking helpers run at word indices the 4-word kinds never reach) converted to
/// and from `Bvf<u64, 4>`, `Bvf<u128, 2>`, `Bvf<u128, 1>`, `Bvd`, `Bv` and one another.  The events carry
/// class / capacity like any other; the specification does not know kind names.
pub fn drive_c12_wide(t: &Tier, sink: &mut Sink, execs: &mut u64) {
    sink.emit(c12_wide_events(t, execs));
}

/// the events of drive_c12_wide (also used to re-run one of them from a replay file)
pub fn c12_wide_events(t: &Tier, execs: &mut u64) -> Vec<Value> {
    use bva::{Bv, Bvd, Bvf};
    use std::convert::TryFrom;
    type W8 = Bvf<u8, 32>;
    type W16 = Bvf<u16, 16>;
    type W32 = Bvf<u32, 8>;
    type Q64 = Bvf<u64, 4>;
    type Q128 = Bvf<u128, 2>;
    type S128 = Bvf<u128, 1>;
    let mut rng = Rng::new(t.seed ^ 0xC12_32);
    let mut vals: Vec<Bits> = Vec::new();
    for n in [0usize, 1, 8, 64, 65, 127, 128, 129, 191, 192, 193, 200, 248, 255, 256] {
        vals.push(ones(n));
        vals.push(random_bits_uniform(&mut rng, n));
        if n > 0 {
            let mut v = zeros(n);
            v[n - 1] = 1;
            vals.push(v);
        }
        if !t.quick {
            for p in patterns_small(n) {
                vals.push(p);
            }
            vals.push(random_bits(&mut rng, n));
        }
    }
    vals.sort();
    vals.dedup();
    let mut evs: Vec<Value> = Vec::new();
    fn event(dbg: bool, sk: &str, scl: &str, scap: usize, bits: &Bits, tk: &str, tcl: &str, tcap: usize, byval: bool, o: Out, after: Option<Bits>) -> Value {
        let a = if byval { json!({"byval": 1}) } else { json!({}) };
        let post = after.unwrap_or_else(|| bits.clone());
        let cap = if scl == "F" { scap } else { bits.len().max(scap) };
        json!({"op": "convert", "f": "", "r": "s", "nb": 1, "cf": "fun", "dbg": dbg as u8,
               "x": {"k": sk, "cl": scl, "c": cap, "b": bits, "m": "-", "p": "fresh"},
               "y": {"k": tk, "cl": tcl, "c": tcap, "b": []}, "a": a,
               "px": {"b": post, "n": bits.len(), "c": cap, "m": "-", "ok": 1}, "py": [], "o": o.to_json(), "cov": 1})
    }
    macro_rules! wide_r {
        ($S:ty, $sk:expr, $scl:expr, $scap:expr, $T:ty, $tk:expr, $tcl:expr, $tcap:expr) => {
            for b in vals.iter().filter(|b| $scl != "F" || b.len() <= $scap) {
                let r = std::panic::catch_unwind(|| {
                    let s: $S = build::<$S>(b);
                    let res: Result<$T, String> = <$T>::try_from(&s).map_err(|e| format!("{:?}", e));
                    let after = bits_of(&s);
                    (match res {
                        Ok(v) => Out::Vec(bits_of(&v)),
                        Err(e) => { if e.contains("NotEnoughCapacity") { Out::ErrCap } else { Out::Panic } }
                    }, after)
                });
                let (o, after) = match r { Ok((o, a)) => (o, Some(a)), Err(_) => (Out::Panic, None) };
                *execs += 1;
                evs.push(event(t.dbg, $sk, $scl, $scap, b, $tk, $tcl, $tcap, false, o, after));
            }
        };
    }
    macro_rules! wide_v {
        ($S:ty, $sk:expr, $scl:expr, $scap:expr, $T:ty, $tk:expr, $tcl:expr, $tcap:expr) => {
            for b in vals.iter().filter(|b| $scl != "F" || b.len() <= $scap) {
                let r = std::panic::catch_unwind(|| {
                    let s: $S = build::<$S>(b);
                    let res: Result<$T, String> = <$T>::try_from(s).map_err(|e| format!("{:?}", e));
                    match res {
                        Ok(v) => Out::Vec(bits_of(&v)),
                        Err(e) => { if e.contains("NotEnoughCapacity") { Out::ErrCap } else { Out::Panic } }
                    }
                });
                let o = r.unwrap_or(Out::Panic);
                *execs += 1;
                evs.push(event(t.dbg, $sk, $scl, $scap, b, $tk, $tcl, $tcap, true, o, None));
            }
        };
    }
    // narrow-word sources into wide-word targets and back (by reference: the only form between fixed types),
    // growable targets by reference and by value, growable sources by reference
    wide_r!(W8, "F8x32", "F", 256, Q128, "F128x2", "F", 256);
    wide_r!(W8, "F8x32", "F", 256, Q64, "F64x4", "F", 256);
    wide_r!(W8, "F8x32", "F", 256, S128, "F128x1", "F", 128);
    wide_r!(W8, "F8x32", "F", 256, W16, "F16x16", "F", 256);
    wide_r!(W8, "F8x32", "F", 256, W32, "F32x8", "F", 256);
    wide_r!(W8, "F8x32", "F", 256, Bvd, "D", "D", 0);
    wide_v!(W8, "F8x32", "F", 256, Bvd, "D", "D", 0);
    wide_r!(W8, "F8x32", "F", 256, Bv, "A", "A", 0);
    wide_v!(W8, "F8x32", "F", 256, Bv, "A", "A", 0);
    wide_r!(W16, "F16x16", "F", 256, Q128, "F128x2", "F", 256);
    wide_r!(W16, "F16x16", "F", 256, Q64, "F64x4", "F", 256);
    wide_r!(W16, "F16x16", "F", 256, W8, "F8x32", "F", 256);
    wide_r!(W16, "F16x16", "F", 256, Bvd, "D", "D", 0);
    wide_v!(W16, "F16x16", "F", 256, Bv, "A", "A", 0);
    wide_r!(W32, "F32x8", "F", 256, Q128, "F128x2", "F", 256);
    wide_r!(W32, "F32x8", "F", 256, W8, "F8x32", "F", 256);
    wide_r!(W32, "F32x8", "F", 256, Bv, "A", "A", 0);
    wide_v!(W32, "F32x8", "F", 256, Bvd, "D", "D", 0);
    wide_r!(Q128, "F128x2", "F", 256, W8, "F8x32", "F", 256);
    wide_r!(Q128, "F128x2", "F", 256, W16, "F16x16", "F", 256);
    wide_r!(Q128, "F128x2", "F", 256, W32, "F32x8", "F", 256);
    wide_r!(Q64, "F64x4", "F", 256, W8, "F8x32", "F", 256);
    wide_r!(Bvd, "D", "D", 0, W8, "F8x32", "F", 256);
    wide_r!(Bvd, "D", "D", 0, W16, "F16x16", "F", 256);
    wide_r!(Bv, "A", "A", 0, W8, "F8x32", "F", 256);
    wide_r!(Bv, "A", "A", 0, W32, "F32x8", "F", 256);
    evs
}

// ------------------------------------------------------------------------------------------------
// C07 (function-contract part): every edit with operands of every kind
// ------------------------------------------------------------------------------------------------

/// The size_hint of the iterator fed to extend / collect: exact, lying lower bound, honest but loose.
pub fn pick_lie(rng: &mut Rng) -> Option<usize> {
    match rng.below(6) {
        0 | 1 => Some(rng.below(300)),
        2 => Some(LOOSE_UPPER + *rng.pick(&[1usize, 7, 64, 200])),
        3 => Some(LOOSE_BOTH + *rng.pick(&[1usize, 3, 64])),
        _ => None,
    }
}

pub fn drive_c07_cases(t: &Tier, m: &mut Matrix, sink: &mut Sink) {
    let mut rng = Rng::new(t.seed ^ 0xC07);
    let xs = pool(t, &mut rng, t.q(129, 257), t.quick, t.q(1, 6));
    for x in &xs {
        let n = x.len();
        // growth stays within what the subject kind can hold: only kinds that admit the RESULT are driven
        let fit = |len: usize| -> Vec<Kind> { ALL_KINDS.iter().copied().filter(|k| k.admits(len)).collect() };
        for b in [0u8, 1] {
            sink.emit(m.run(&Case::new("push", x.clone()).a(Args { bit: Some(b), ..Default::default() }).xk(fit(n + 1))));
        }
        sink.emit(m.run(&Case::new("pop", x.clone())));
        if n > 0 {
            for i in [0, n - 1, n / 2, (n - 1).min(63), (n - 1).min(64)] {
                sink.emit(m.run(&Case::new("set", x.clone()).a(Args { i: Some(i), bit: Some(1 - x[i]), ..Default::default() })));
            }
        }
        let mut targets: Vec<usize> = vec![0, n / 2, n.saturating_sub(1), n, n + 1, n + 7, n + 8, n + 63, n + 64, n + 65, n + 130];
        targets.extend(BOUNDARY.iter().copied().filter(|b| *b <= n + 130));
        targets.sort();
        targets.dedup();
        for nl in sample(&mut rng, &targets, t.q(5, 14)) {
            let b = (rng.next() & 1) as u8;
            sink.emit(m.run(&Case::new("resize", x.clone()).a(Args { n: Some(nl as u128), bit: Some(b), ..Default::default() }).xk(fit(nl.max(n)))));
            sink.emit(m.run(&Case::new("sign_extend", x.clone()).a(Args::n(nl)).xk(fit(nl.max(n)))));
            sink.emit(m.run(&Case::new("truncate", x.clone()).a(Args::n(nl))));
        }
        for _ in 0..t.q(3, 16) {
            let y = operand_for(&mut rng, n, 140, false);
            let tot = n + y.len();
            sink.emit(m.run(&Case::new("append", x.clone()).y(YSpec::Bits(y.clone())).xk(fit(tot))));
            sink.emit(m.run(&Case::new("prepend", x.clone()).y(YSpec::Bits(y.clone())).xk(fit(tot))));
            let rb = rng.below(n + 1);
            let i = *rng.pick(&[0, n, n / 2, n.min(8), n.min(64), rb]);
            sink.emit(m.run(&Case::new("insert", x.clone()).y(YSpec::Bits(y.clone())).a(Args { i: Some(i), ..Default::default() }).xk(fit(tot))));
            let lie = pick_lie(&mut rng);
            sink.emit(m.run(&Case::new("extend", x.clone()).a(Args { bits: Some(y.clone()), lie, ..Default::default() }).xk(fit(tot))));
        }
        // the empty operand
        sink.emit(m.run(&Case::new("append", x.clone()).y(YSpec::Bits(vec![]))));
        sink.emit(m.run(&Case::new("prepend", x.clone()).y(YSpec::Bits(vec![]))));
        sink.emit(m.run(&Case::new("insert", x.clone()).y(YSpec::Bits(vec![])).a(Args { i: Some(n / 2), ..Default::default() })));
        let lie = pick_lie(&mut rng);
        sink.emit(m.run(&Case::new("collect", vec![]).a(Args { bits: Some(x.clone()), lie, ..Default::default() }).xk(fit(n)).capsens()));
    }
}
