//! Executes one public call of the real bva code, described dynamically, on a live vector.
//! Every call runs under catch_unwind: a panic is data (`Out::Panic`), never a harness failure.

use crate::fmtgen::fmt_apply;
use crate::kinds::*;
use crate::out::*;
use crate::{with_any, with_int, with_kind};
use bva::{Bit, BitIterator, BitVector, Bv, Bvd, ConvertionError, Endianness};
use std::hash::{Hash, Hasher};
use std::iter::Rev;
use std::ops::*;
use std::panic::{catch_unwind, AssertUnwindSafe};

/// Right-hand operand of a call.
#[derive(Clone, Debug)]
pub enum Y {
    None,
    Vec(AnyBv),
    Int(IntTy, u128),
}

impl Y {
    pub fn bits(&self) -> Bits {
        match self {
            Y::None => vec![],
            Y::Vec(v) => v.bits(),
            Y::Int(t, v) => int_bits(*v, t.width()),
        }
    }
}

thread_local! {
    /// result vectors produced by the last call (so that callers can go on using the very objects
    /// the call returned, not copies rebuilt from their bits)
    static STASH: std::cell::RefCell<Vec<AnyBv>> = std::cell::RefCell::new(Vec::new());
}
fn stash<B: IntoAny>(v: B) {
    STASH.with(|s| s.borrow_mut().push(v.into_any()));
}
pub fn take_stash() -> Vec<AnyBv> {
    STASH.with(|s| std::mem::take(&mut *s.borrow_mut()))
}
fn vec_out<B: BitVector + IntoAny>(v: B) -> Out {
    let b = bits_of(&v);
    stash(v);
    Out::Vec(b)
}
fn pair_out<B: BitVector + IntoAny>(a: B, b: B) -> Out {
    let (ba, bb) = (bits_of(&a), bits_of(&b));
    stash(a);
    stash(b);
    Out::Pair(ba, bb)
}

fn cerr(e: ConvertionError) -> Out {
    match e {
        ConvertionError::NotEnoughCapacity => Out::ErrCap,
        ConvertionError::InvalidFormat(i) => Out::ErrFmt(i),
    }
}

fn endian(a: &Args) -> Endianness {
    if a.e == Some('B') {
        Endianness::Big
    } else {
        Endianness::Little
    }
}

/// A Hasher that records the byte stream it is fed.
#[derive(Default)]
pub struct RecHasher(pub Vec<u8>);
impl Hasher for RecHasher {
    fn finish(&self) -> u64 {
        0
    }
    fn write(&mut self, bytes: &[u8]) {
        // keep call boundaries visible: a stream is the sequence of writes
        self.0.push(bytes.len() as u8);
        self.0.extend_from_slice(bytes);
    }
}
pub fn hash_stream<B: Hash>(v: &B) -> Vec<u8> {
    let mut h = RecHasher::default();
    v.hash(&mut h);
    h.0
}
/// The data fed to the hasher when the vector is an element of a hashed slice (`[B]`, `[B; K]`, `Vec<B>`
/// all go through `Hash::hash_slice`, which a type may override).
pub fn hash_slice_stream<B: Hash + Clone>(v: &B) -> Vec<u8> {
    let mut h = RecHasher::default();
    let els = [v.clone(), v.clone()];
    Hash::hash_slice(&els[..], &mut h);
    h.0
}
pub fn default_hash<B: Hash>(v: &B) -> u64 {
    let mut h = std::collections::hash_map::DefaultHasher::new();
    v.hash(&mut h);
    h.finish()
}

/// `lie` values from here on encode honest hints: `(0, Some(remaining + slack))`
pub const LOOSE_UPPER: usize = 1 << 20;
/// ... and `(remaining - slack, Some(remaining + slack))`
pub const LOOSE_BOTH: usize = 1 << 21;

/// An iterator over bits whose size_hint is exact, loose, or lies.
pub struct LyingIter<'a> {
    bits: &'a [u8],
    pos: usize,
    lie: Option<usize>,
}
impl<'a> Iterator for LyingIter<'a> {
    type Item = Bit;
    fn next(&mut self) -> Option<Bit> {
        let b = self.bits.get(self.pos).map(|b| bit(*b));
        self.pos += 1;
        b
    }
    fn size_hint(&self) -> (usize, Option<usize>) {
        let r = self.bits.len().saturating_sub(self.pos);
        match self.lie {
            // honest but loose hints (what filter / take_while / skip_while report)
            Some(l) if l >= LOOSE_BOTH => (r.saturating_sub(l - LOOSE_BOTH), Some(r + (l - LOOSE_BOTH))),
            Some(l) if l >= LOOSE_UPPER => (0, Some(r + (l - LOOSE_UPPER))),
            // a lower bound that may lie in either direction, no upper bound
            Some(l) => (l, None),
            None => (r, Some(r)),
        }
    }
}
pub fn lying<'a>(bits: &'a [u8], lie: Option<usize>) -> LyingIter<'a> {
    LyingIter { bits, pos: 0, lie }
}

// ------------------------------------------------------------------------------------------------
// Operator forms
// ------------------------------------------------------------------------------------------------

/// x: &mut X (the register), y: &Y.  Value / reference forms work on a clone of the register and
/// return Some(result); assignment forms mutate the register and return None.
macro_rules! forms {
    ($x:expr, $y:expr, $form:expr, $m:ident, $ma:ident) => {
        match $form {
            "vv" => Some($x.clone().$m($y.clone())),
            "vr" => Some($x.clone().$m($y)),
            "rv" => Some((&*$x).$m($y.clone())),
            "rr" => Some((&*$x).$m($y)),
            "av" => {
                $x.$ma($y.clone());
                None
            }
            "ar" => {
                $x.$ma($y);
                None
            }
            other => panic!("harness: unknown form {}", other),
        }
    };
}

macro_rules! binop_match {
    ($x:expr, $y:expr, $op:expr, $form:expr) => {
        match $op {
            "add" => forms!($x, $y, $form, add, add_assign),
            "sub" => forms!($x, $y, $form, sub, sub_assign),
            "mul" => forms!($x, $y, $form, mul, mul_assign),
            "div" => forms!($x, $y, $form, div, div_assign),
            "rem" => forms!($x, $y, $form, rem, rem_assign),
            "and" => forms!($x, $y, $form, bitand, bitand_assign),
            "or" => forms!($x, $y, $form, bitor, bitor_assign),
            "xor" => forms!($x, $y, $form, bitxor, bitxor_assign),
            other => panic!("harness: unknown binop {}", other),
        }
    };
}

// ------------------------------------------------------------------------------------------------
// Per-type operations that are not part of the BitVector trait
// ------------------------------------------------------------------------------------------------

pub trait VOps: BitVector + IntoAny + Sized {
    fn v_reserve(&mut self, k: usize);
    fn v_shrink(&mut self);
    fn v_from_int(ty: IntTy, v: u128, byref: bool) -> Result<Self, ConvertionError>;
    fn v_to_int(&self, ty: IntTy, byval: bool) -> Result<u128, ConvertionError>;
    fn v_from_slice(ty: IntTy, els: &[u128]) -> Result<Self, ConvertionError>;
    fn v_shift(&mut self, left: bool, ty: IntTy, k: u128, form: &str) -> Option<Self>;
    fn v_not(&self, byref: bool) -> Self;
    fn v_roundtrip(&self) -> Self;
    fn v_int_binop(&mut self, op: &str, ty: IntTy, v: u128, form: &str) -> Option<Self>;
    fn v_extend(&mut self, bits: &[u8], lie: Option<usize>);
    fn v_collect(bits: &[u8], lie: Option<usize>) -> Self;
    fn v_ref_iter_collect(&self) -> Bits;
}

macro_rules! vops_common {
    () => {
        fn v_shift(&mut self, left: bool, ty: IntTy, k: u128, form: &str) -> Option<Self> {
            with_int!(ty, T => {
                let k = k as T;
                if left {
                    forms!(self, &k, form, shl, shl_assign)
                } else {
                    forms!(self, &k, form, shr, shr_assign)
                }
            })
        }
        fn v_not(&self, byref: bool) -> Self {
            if byref {
                (&*self).not()
            } else {
                self.clone().not()
            }
        }
        fn v_int_binop(&mut self, op: &str, ty: IntTy, v: u128, form: &str) -> Option<Self> {
            with_int!(ty, T => {
                let v = v as T;
                binop_match!(self, &v, op, form)
            })
        }
        fn v_to_int(&self, ty: IntTy, byval: bool) -> Result<u128, ConvertionError> {
            with_int!(ty, T => {
                if byval {
                    T::try_from(self.clone()).map(|r| r as u128)
                } else {
                    T::try_from(&*self).map(|r| r as u128)
                }
            })
        }
        fn v_extend(&mut self, bits: &[u8], lie: Option<usize>) {
            self.extend(lying(bits, lie));
        }
        fn v_collect(bits: &[u8], lie: Option<usize>) -> Self {
            lying(bits, lie).collect()
        }
        fn v_ref_iter_collect(&self) -> Bits {
            let mut out = vec![];
            for b in &*self {
                out.push(ub(b));
            }
            out
        }
    };
}

macro_rules! impl_vops_fixed {
    ($($K:ident),+) => { $(
        impl VOps for $K {
            vops_common!();
            fn v_reserve(&mut self, _k: usize) {}
            fn v_shrink(&mut self) {}
            fn v_from_int(ty: IntTy, v: u128, byref: bool) -> Result<Self, ConvertionError> {
                with_int!(ty, T => {
                    let v = v as T;
                    if byref { Self::try_from(&v) } else { Self::try_from(v) }
                })
            }
            fn v_from_slice(ty: IntTy, els: &[u128]) -> Result<Self, ConvertionError> {
                with_int!(ty, T => {
                    let s: Vec<T> = els.iter().map(|e| *e as T).collect();
                    Self::try_from(&s[..])
                })
            }
            fn v_roundtrip(&self) -> Self {
                let (d, l) = self.clone().into_inner();
                Self::new(d, l)
            }
        }
    )+ };
}
impl_vops_fixed!(F8x1, F8x2, F8x3, F8x4, F16x1, F16x4, F32x1, F32x4, F64x1, F64x2, F64x4, F128x1, F128x4, Fux1, Fux4);

macro_rules! impl_vops_growable {
    ($K:ident, $rt:expr) => {
        impl VOps for $K {
            vops_common!();
            fn v_reserve(&mut self, k: usize) {
                self.reserve(k);
            }
            fn v_shrink(&mut self) {
                self.shrink_to_fit();
            }
            fn v_from_int(ty: IntTy, v: u128, byref: bool) -> Result<Self, ConvertionError> {
                with_int!(ty, T => {
                    let v = v as T;
                    Ok(if byref { Self::from(&v) } else { Self::from(v) })
                })
            }
            fn v_from_slice(ty: IntTy, els: &[u128]) -> Result<Self, ConvertionError> {
                with_int!(ty, T => {
                    let s: Vec<T> = els.iter().map(|e| *e as T).collect();
                    Ok(Self::from(&s[..]))
                })
            }
            fn v_roundtrip(&self) -> Self {
                let f: fn(&$K) -> $K = $rt;
                f(self)
            }
        }
    };
}
impl_vops_growable!(D, |v: &Bvd| {
    let (d, l) = v.clone().into_inner();
    Bvd::new(d, l)
});
impl_vops_growable!(A, |v: &Bv| Bv::from(v));

// ------------------------------------------------------------------------------------------------
// Per-pair operations: operators, comparisons, conversions
// ------------------------------------------------------------------------------------------------

pub trait POps<Yt>: Sized {
    fn p_binop(&mut self, y: &Yt, op: &str, form: &str) -> Option<Self>;
    fn p_cmp(&self, y: &Yt, op: &str) -> Out;
    /// convert self into Yt
    fn p_convert(&self, byval: bool) -> Result<Yt, String>;
    fn p_div_rem(&self, y: &Yt) -> Out;
}

macro_rules! cmp_body {
    ($x:expr, $y:expr, $op:expr) => {
        match $op {
            "eq" => Out::Bool($x == $y),
            "ne" => Out::Bool($x != $y),
            "lt" => Out::Bool($x < $y),
            "le" => Out::Bool($x <= $y),
            "gt" => Out::Bool($x > $y),
            "ge" => Out::Bool($x >= $y),
            "pcmp" => match $x.partial_cmp($y) {
                Some(o) => Out::Ord(o as i8),
                None => Out::None,
            },
            other => panic!("harness: unknown comparison {}", other),
        }
    };
}

/// conv: how X converts into Y by value ("tryref" = only by reference exists)
macro_rules! impl_pops {
    ($X:ident, $Y:ident, $byval:tt) => {
        impl POps<$Y> for $X {
            fn p_binop(&mut self, y: &$Y, op: &str, form: &str) -> Option<Self> {
                binop_match!(self, y, op, form)
            }
            fn p_cmp(&self, y: &$Y, op: &str) -> Out {
                cmp_body!(self, y, op)
            }
            fn p_convert(&self, byval: bool) -> Result<$Y, String> {
                impl_pops!(@conv $byval, self, byval, $Y)
            }
            fn p_div_rem(&self, y: &$Y) -> Out {
                let (q, r) = self.div_rem::<$Y>(y);
                pair_out(q, r)
            }
        }
    };
    (@conv yes, $s:expr, $byval:expr, $Y:ident) => {
        if $byval {
            <$Y>::try_from($s.clone()).map_err(|e| format!("{:?}", e))
        } else {
            <$Y>::try_from(&*$s).map_err(|e| format!("{:?}", e))
        }
    };
    (@conv no, $s:expr, $byval:expr, $Y:ident) => {{
        let _ = $byval;
        <$Y>::try_from(&*$s).map_err(|e| format!("{:?}", e))
    }};
}

macro_rules! impl_pops_row {
    ($X:ident; fixed: $($F:ident),+) => {
        $( impl_pops!($X, $F, no); )+
    };
}
macro_rules! impl_pops_fixed_rows {
    ($($X:ident),+) => { $(
        impl_pops_row!($X; fixed: F8x1, F8x2, F8x3, F8x4, F16x1, F16x4, F32x1, F32x4, F64x1, F64x2, F64x4, F128x1, F128x4, Fux1, Fux4);
        impl_pops!($X, D, yes);
        impl_pops!($X, A, yes);
        impl_pops!(D, $X, yes);
        impl_pops!(A, $X, yes);
    )+ };
}
impl_pops_fixed_rows!(F8x1, F8x2, F8x3, F8x4, F16x1, F16x4, F32x1, F32x4, F64x1, F64x2, F64x4, F128x1, F128x4, Fux1, Fux4);
impl_pops!(D, D, yes);
impl_pops!(D, A, yes);
impl_pops!(A, D, yes);
impl_pops!(A, A, yes);

// ------------------------------------------------------------------------------------------------
// Generic operations
// ------------------------------------------------------------------------------------------------

fn opt_bit(o: Option<Bit>) -> Out {
    match o {
        Some(b) => Out::Bit(ub(b)),
        None => Out::None,
    }
}

/// Constructors: Ok((new vector, result)) or Err(result)
fn ctor<B: VOps>(op: &str, y: &Y, a: &Args) -> Result<(B, Out), Out> {
    let n = a.n.unwrap_or(0) as usize;
    match op {
        "zeros" => Ok((B::zeros(n), Out::Unit)),
        "ones" => Ok((B::ones(n), Out::Unit)),
        "repeat" => Ok((B::repeat(bit(a.bit.unwrap_or(0)), n), Out::Unit)),
        "with_capacity" => Ok((B::with_capacity(n), Out::Unit)),
        "from_binary" => {
            let s: String = a.chars.as_ref().unwrap().concat();
            let r = if a.byval { B::from_binary(s) } else { B::from_binary(&s) };
            r.map(|v| (v, Out::Unit)).map_err(cerr)
        }
        "from_hex" => {
            let s: String = a.chars.as_ref().unwrap().concat();
            let r = if a.byval { B::from_hex(s) } else { B::from_hex(&s) };
            r.map(|v| (v, Out::Unit)).map_err(cerr)
        }
        "from_bytes" => {
            let b = a.bytes.as_ref().unwrap();
            let r = if a.byval { B::from_bytes(b.clone(), endian(a)) } else { B::from_bytes(&b[..], endian(a)) };
            r.map(|v| (v, Out::Unit)).map_err(cerr)
        }
        "read" => {
            let b = a.bytes.as_ref().unwrap();
            // a.j = Some(k): the reader hands out at most k bytes per call (a pipe / socket / chained reader)
            struct Dribble<'a> {
                cur: std::io::Cursor<&'a [u8]>,
                chunk: usize,
            }
            impl<'a> std::io::Read for Dribble<'a> {
                fn read(&mut self, buf: &mut [u8]) -> std::io::Result<usize> {
                    let k = buf.len().min(self.chunk);
                    std::io::Read::read(&mut self.cur, &mut buf[..k])
                }
            }
            let mut rd = Dribble { cur: std::io::Cursor::new(&b[..]), chunk: a.j.filter(|k| *k > 0).unwrap_or(usize::MAX) };
            match B::read(&mut rd, n, endian(a)) {
                Ok(v) => Ok((v, Out::Num(rd.cur.position() as i64))),
                Err(_) => Err(Out::ErrIo),
            }
        }
        "from_int" => match y {
            Y::Int(t, v) => B::v_from_int(*t, *v, !a.byval).map(|v| (v, Out::Unit)).map_err(cerr),
            _ => panic!("harness: from_int needs an integer operand"),
        },
        "from_slice" => {
            let els: Vec<u128> = a.els.as_ref().unwrap().iter().map(|b| bits_int(b)).collect();
            B::v_from_slice(a.ity.unwrap(), &els).map(|v| (v, Out::Unit)).map_err(cerr)
        }
        "collect" => Ok((B::v_collect(a.bits.as_ref().unwrap(), a.lie), Out::Unit)),
        other => panic!("harness: unknown constructor {}", other),
    }
}

pub fn is_ctor(op: &str) -> bool {
    matches!(
        op,
        "zeros" | "ones" | "repeat" | "with_capacity" | "from_binary" | "from_hex" | "from_bytes" | "read" | "from_int" | "from_slice" | "collect"
    )
}
pub fn is_binop(op: &str) -> bool {
    matches!(op, "add" | "sub" | "mul" | "div" | "rem" | "and" | "or" | "xor")
}
pub fn is_cmp(op: &str) -> bool {
    matches!(op, "eq" | "ne" | "lt" | "le" | "gt" | "ge" | "pcmp" | "cmp")
}

/// Operations on one vector (no vector operand)
fn unary<B: VOps>(v: &mut B, y: &Y, op: &str, f: &str, a: &Args) -> Out {
    let n = a.n.unwrap_or(0);
    let nu = n.min(usize::MAX as u128) as usize;
    let i = a.i.unwrap_or(0);
    let j = a.j.unwrap_or(0);
    let b = bit(a.bit.unwrap_or(0));
    match op {
        // observers
        "len" => Out::Num(v.len() as i64),
        "is_empty" => Out::Bool(v.is_empty()),
        "capacity" => Out::Num(v.capacity() as i64),
        "get" => Out::Bit(ub(v.get(i))),
        "first" => opt_bit(v.first()),
        "last" => opt_bit(v.last()),
        "to_vec" => Out::Bytes(v.to_vec(endian(a))),
        "write" => {
            let mut buf = Vec::new();
            match v.write(&mut buf, endian(a)) {
                Ok(()) => Out::Bytes(buf),
                Err(_) => Out::ErrIo,
            }
        }
        "is_zero" => Out::Bool(v.is_zero()),
        "leading_zeros" => Out::Num(v.leading_zeros() as i64),
        "leading_ones" => Out::Num(v.leading_ones() as i64),
        "trailing_zeros" => Out::Num(v.trailing_zeros() as i64),
        "trailing_ones" => Out::Num(v.trailing_ones() as i64),
        "significant_bits" => Out::Num(v.significant_bits() as i64),
        "fmt" => {
            let s = fmt_apply(&*v, a.fmt.as_ref().unwrap()).expect("harness: format spec not in the compiled matrix");
            Out::Str(s.chars().map(|c| c.to_string()).collect())
        }
        "to_int" => match v.v_to_int(a.ity.unwrap(), a.byval) {
            Ok(r) => Out::Vec(int_bits(r, a.ity.unwrap().width())),
            Err(e) => cerr(e),
        },
        "new_inner" => vec_out(v.v_roundtrip()),
        "iter_collect" => {
            if a.byval {
                Out::Vec(v.v_ref_iter_collect())
            } else {
                Out::Vec(v.iter().map(ub).collect())
            }
        }
        "clone" => vec_out(v.clone()),
        "clone_push" => {
            let mut c = v.clone();
            c.v_reserve(1);
            if c.capacity() > c.len() {
                c.push(b);
                vec_out(c)
            } else {
                // a full fixed vector: edit the clone in place instead
                let mut bits = bits_of(&c);
                bits.push(a.bit.unwrap_or(0));
                Out::Vec(bits)
            }
        }
        "write_fail" | "write_chunk" => {
            // a writer that takes at most `chunk` bytes per call and fails once `room` bytes were taken
            struct Picky {
                room: usize,
                chunk: usize,
                got: Vec<u8>,
            }
            impl std::io::Write for Picky {
                fn write(&mut self, buf: &[u8]) -> std::io::Result<usize> {
                    if self.room == 0 && !buf.is_empty() {
                        return Err(std::io::Error::new(std::io::ErrorKind::Other, "writer full"));
                    }
                    let k = buf.len().min(self.room).min(self.chunk);
                    self.room -= k;
                    self.got.extend_from_slice(&buf[..k]);
                    Ok(k)
                }
                fn flush(&mut self) -> std::io::Result<()> {
                    Ok(())
                }
            }
            let mut w = if op == "write_fail" { Picky { room: nu, chunk: usize::MAX, got: vec![] } } else { Picky { room: usize::MAX, chunk: nu.max(1), got: vec![] } };
            match v.write(&mut w, endian(a)) {
                Ok(()) => Out::Bytes(w.got),
                Err(_) => Out::ErrIo,
            }
        }
        "bit_display" => Out::Str(format!("{}", b).chars().map(|c| c.to_string()).collect()),
        "debug_fmt" => Out::Bool(!format!("{:?}", v).is_empty()),
        "err_display" => Out::Bool(
            !format!("{}", ConvertionError::NotEnoughCapacity).is_empty() && !format!("{}", ConvertionError::InvalidFormat(i)).is_empty()
                && format!("{}", ConvertionError::InvalidFormat(i)).contains(&i.to_string()),
        ),
        "bvd_new" => {
            let data: Vec<u64> = vec![u64::MAX; i];
            let d = Bvd::new(data.into_boxed_slice(), nu);
            Out::Num(d.len() as i64)
        }
        "cmp" => match y {
            // Ord::cmp exists only within one type; handled by the caller for vectors of the same kind
            _ => panic!("harness: cmp handled in exec_inner"),
        },
        // edits
        "set" => {
            v.set(i, b);
            Out::Unit
        }
        "push" => {
            v.push(b);
            Out::Unit
        }
        "pop" => opt_bit(v.pop()),
        "resize" => {
            v.resize(nu, b);
            Out::Unit
        }
        "truncate" => {
            v.truncate(nu);
            Out::Unit
        }
        "sign_extend" => {
            v.sign_extend(nu);
            Out::Unit
        }
        "extend" => {
            v.v_extend(a.bits.as_ref().unwrap(), a.lie);
            Out::Unit
        }
        "split_off" => vec_out(v.split_off(i)),
        "split" => {
            let (hi, lo) = v.clone().split(i);
            pair_out(hi, lo)
        }
        "copy_range" => vec_out(v.copy_range(i..j)),
        "shl_in" => Out::Bit(ub(v.shl_in(b))),
        "shr_in" => Out::Bit(ub(v.shr_in(b))),
        "rotl" => {
            v.rotl(nu);
            Out::Unit
        }
        "rotr" => {
            v.rotr(nu);
            Out::Unit
        }
        "reserve" => {
            v.v_reserve(nu);
            Out::Unit
        }
        "shrink_to_fit" => {
            v.v_shrink();
            Out::Unit
        }
        "not" => vec_out(v.v_not(f == "r")),
        "shl" | "shr" => match v.v_shift(op == "shl", a.ity.unwrap(), n, f) {
            Some(r) => vec_out(r),
            None => Out::Unit,
        },
        _ if is_binop(op) => match y {
            Y::Int(t, val) => match v.v_int_binop(op, *t, *val, f) {
                Some(r) => vec_out(r),
                None => Out::Unit,
            },
            _ => panic!("harness: binop without operand"),
        },
        other => panic!("harness: unknown unary operation {}", other),
    }
}

/// Operations with a vector operand
fn pair<X, Yt>(x: &mut X, y: &Yt, op: &str, f: &str, a: &Args) -> Out
where
    X: VOps + POps<Yt>,
    Yt: VOps,
{
    match op {
        "append" => {
            x.append(y);
            Out::Unit
        }
        "prepend" => {
            x.prepend(y);
            Out::Unit
        }
        "insert" => {
            x.insert(a.i.unwrap_or(0), y);
            Out::Unit
        }
        "div_rem" => x.p_div_rem(y),
        _ if is_binop(op) => match x.p_binop(y, op, f) {
            Some(r) => vec_out(r),
            None => Out::Unit,
        },
        _ if is_cmp(op) => x.p_cmp(y, op),
        other => panic!("harness: unknown pair operation {}", other),
    }
}

fn convert_to<X, Yt>(x: &X, byval: bool) -> Out
where
    X: POps<Yt>,
    Yt: BitVector + IntoAny,
{
    match x.p_convert(byval) {
        Ok(v) => vec_out(v),
        Err(e) => {
            if e.contains("NotEnoughCapacity") {
                Out::ErrCap
            } else {
                panic!("harness: unexpected conversion error {}", e)
            }
        }
    }
}

/// Like convert_to but hands back the converted vector (used to build subjects "by conversion").
pub fn convert_any(x: &AnyBv, to: Kind, byval: bool) -> Option<AnyBv> {
    with_any!(x, xv => with_kind!(to, T => {
        let r: Result<T, String> = xv.p_convert(byval);
        r.ok().map(|v| v.into_any())
    }))
}

fn ord_cmp_same(x: &AnyBv, y: &AnyBv) -> Out {
    macro_rules! same {
        ($($K:ident),+) => {
            match (x, y) {
                $( (AnyBv::$K(a), AnyBv::$K(b)) => Out::Ord(Ord::cmp(a, b) as i8), )+
                _ => panic!("harness: Ord::cmp needs operands of one type"),
            }
        };
    }
    same!(F8x1, F8x2, F8x3, F8x4, F16x1, F16x4, F32x1, F32x4, F64x1, F64x2, F64x4, F128x1, F128x4, Fux1, Fux4, D, A)
}

/// Clone::clone_from within one type (may reuse the destination's storage)
fn clone_from_same(x: &mut AnyBv, y: &AnyBv) -> Out {
    macro_rules! same {
        ($($K:ident),+) => {
            match (x, y) {
                $( (AnyBv::$K(a), AnyBv::$K(b)) => { a.clone_from(b); Out::Unit } )+
                _ => panic!("harness: clone_from needs operands of one type"),
            }
        };
    }
    same!(F8x1, F8x2, F8x3, F8x4, F16x1, F16x4, F32x1, F32x4, F64x1, F64x2, F64x4, F128x1, F128x4, Fux1, Fux4, D, A)
}

/// HashSet membership within one type: a set holding x is asked for y
fn hs_contains_same(x: &AnyBv, y: &AnyBv) -> Out {
    macro_rules! same {
        ($($K:ident),+) => {
            match (x, y) {
                $( (AnyBv::$K(a), AnyBv::$K(b)) => {
                    let mut set = std::collections::HashSet::new();
                    set.insert(a.clone());
                    Out::Bool(set.contains(b))
                } )+
                _ => panic!("harness: hs_contains needs operands of one type"),
            }
        };
    }
    same!(F8x1, F8x2, F8x3, F8x4, F16x1, F16x4, F32x1, F32x4, F64x1, F64x2, F64x4, F128x1, F128x4, Fux1, Fux4, D, A)
}

fn exec_inner(x: &mut AnyBv, y: &Y, op: &str, f: &str, a: &Args) -> Out {
    if is_ctor(op) {
        return with_any!(x, xv => {
            fn go<B: VOps>(slot: &mut B, op: &str, y: &Y, a: &Args) -> Out {
                match ctor::<B>(op, y, a) {
                    Ok((v, o)) => { *slot = v; o }
                    Err(o) => o,
                }
            }
            go(xv, op, y, a)
        });
    }
    if op == "convert" {
        let tk = a.tk.expect("harness: convert needs a target kind");
        return with_any!(&*x, xv => with_kind!(tk, T => convert_to::<_, T>(xv, a.byval)));
    }
    if op == "hash" {
        // handled by the drivers (needs interning); here: DefaultHasher output as a number's low bits
        return with_any!(&*x, xv => Out::Bytes(hash_stream(xv)));
    }
    if op == "rop" {
        // the subject used as the RIGHT operand of an operation on a fresh, longer left operand z
        // (all ones): z OP= &subject, z == subject, z.append(&subject), ...  The subject keeps its
        // storage state (clone()), so whatever lies beyond its length may leak into z.
        let tk = a.tk.expect("harness: rop needs the kind of the left operand");
        let extra = a.n.unwrap_or(0) as usize;
        const ROPS: [(&str, &str); 12] = [("and", "ar"), ("or", "ar"), ("xor", "rr"), ("add", "ar"), ("sub", "rr"), ("mul", "rr"), ("eq", ""), ("append", ""),
                                          ("prepend", ""), ("and", "rr"), ("ge", ""), ("div_rem", "")];
        let (rop, rf) = ROPS[a.i.unwrap_or(0) % ROPS.len()];
        let zb: Vec<u8> = vec![1; x.len() + extra];
        let mut z = AnyBv::fresh(tk, &zb);
        let o = exec_inner(&mut z, &Y::Vec(x.clone()), rop, rf, &Args::default());
        return if o == Out::Unit { Out::Vec(z.bits()) } else { o };
    }
    if op == "hash_slice" {
        return with_any!(&*x, xv => Out::Bytes(hash_slice_stream(xv)));
    }
    match y {
        Y::Vec(yv) => {
            if op == "cmp" {
                return ord_cmp_same(x, yv);
            }
            if op == "hs_contains" {
                return hs_contains_same(x, yv);
            }
            if op == "clone_from" {
                return clone_from_same(x, yv);
            }
            with_any!(x, xv => with_any!(yv, yy => pair(xv, yy, op, f, a)))
        }
        _ => with_any!(x, xv => unary(xv, y, op, f, a)),
    }
}

/// Execute one call on the live vector `x`.
pub fn exec(x: &mut AnyBv, y: &Y, op: &str, f: &str, a: &Args) -> Out {
    crate::progress::tick();
    take_stash();
    match catch_unwind(AssertUnwindSafe(|| exec_inner(x, y, op, f, a))) {
        Ok(o) => o,
        Err(e) => {
            if let Some(s) = e.downcast_ref::<String>() {
                if s.starts_with("harness:") {
                    eprintln!("HARNESS-ERROR {}", s);
                    std::process::exit(2);
                }
            }
            if let Some(s) = e.downcast_ref::<&str>() {
                if s.starts_with("harness:") {
                    eprintln!("HARNESS-ERROR {}", s);
                    std::process::exit(2);
                }
            }
            Out::Panic
        }
    }
}

/// Like exec, but leaves the result stash of the enclosing call alone.
pub fn exec_keep(x: &mut AnyBv, y: &Y, op: &str, f: &str, a: &Args) -> Out {
    let saved = take_stash();
    let o = exec(x, y, op, f, a);
    take_stash();
    STASH.with(|s| *s.borrow_mut() = saved);
    o
}

/// Observed state of a vector after a call; reading it back may itself panic if the call
/// left the vector inconsistent (len > capacity), which is reported rather than propagated.
#[derive(Clone, Debug, PartialEq, Eq, Hash)]
pub struct State {
    pub len: usize,
    pub cap: usize,
    pub bits: Option<Bits>,
    pub mode: &'static str,
}
pub fn observe(x: &AnyBv) -> State {
    let len = x.len();
    let cap = x.capacity();
    let bits = catch_unwind(AssertUnwindSafe(|| x.bits())).ok();
    State { len, cap, bits, mode: x.mode() }
}

// ------------------------------------------------------------------------------------------------
// Iterator sessions
// ------------------------------------------------------------------------------------------------

enum It<'a, B: BitVector> {
    F(BitIterator<'a, B>),
    R(Rev<BitIterator<'a, B>>),
    RR(Rev<Rev<BitIterator<'a, B>>>),
    R3(Rev<Rev<Rev<BitIterator<'a, B>>>>),
    R4(Rev<Rev<Rev<Rev<BitIterator<'a, B>>>>>),
    Dead,
}

fn it_session<B: BitVector>(v: &B, calls: &[(String, u128)], via_into_iter: bool) -> Vec<Out>
where
    for<'a> &'a B: IntoIterator<Item = Bit, IntoIter = BitIterator<'a, B>>,
{
    let mut it = It::Dead;
    let mut outs = Vec::new();
    for (op, k) in calls {
        let k = (*k).min(usize::MAX as u128) as usize;
        let r = catch_unwind(AssertUnwindSafe(|| -> Out {
            macro_rules! each {
                ($i:ident => $e:expr) => {
                    match &mut it {
                        It::F($i) => $e,
                        It::R($i) => $e,
                        It::RR($i) => $e,
                        It::R3($i) => $e,
                        It::R4($i) => $e,
                        It::Dead => panic!("harness: iterator call on a dead iterator"),
                    }
                };
            }
            match op.as_str() {
                "it_new" => {
                    it = It::F(if via_into_iter { v.into_iter() } else { v.iter() });
                    Out::Unit
                }
                "it_next" => opt_bit(each!(i => i.next())),
                "it_next_back" => opt_bit(each!(i => i.next_back())),
                "it_nth" => opt_bit(each!(i => i.nth(k))),
                "it_nth_back" => opt_bit(each!(i => i.nth_back(k))),
                "it_size_hint" => {
                    let (lo, hi) = each!(i => i.size_hint());
                    // a number when the hint is exact (lower == upper), the raw pair otherwise
                    if hi == Some(lo) {
                        Out::Num(lo as i64)
                    } else {
                        Out::Str(vec![lo.to_string(), hi.map_or("-1".to_string(), |h| h.to_string())])
                    }
                }
                "it_count" => {
                    let old = std::mem::replace(&mut it, It::Dead);
                    Out::Num(match old {
                        It::F(i) => i.count(),
                        It::R(i) => i.count(),
                        It::RR(i) => i.count(),
                        It::R3(i) => i.count(),
                        It::R4(i) => i.count(),
                        It::Dead => panic!("harness: iterator call on a dead iterator"),
                    } as i64)
                }
                "it_last" => {
                    let old = std::mem::replace(&mut it, It::Dead);
                    opt_bit(match old {
                        It::F(i) => i.last(),
                        It::R(i) => i.last(),
                        It::RR(i) => i.last(),
                        It::R3(i) => i.last(),
                        It::R4(i) => i.last(),
                        It::Dead => panic!("harness: iterator call on a dead iterator"),
                    })
                }
                "it_rev" => {
                    let old = std::mem::replace(&mut it, It::Dead);
                    it = match old {
                        It::F(i) => It::R(i.rev()),
                        It::R(i) => It::RR(i.rev()),
                        It::RR(i) => It::R3(i.rev()),
                        It::R3(i) => It::R4(i.rev()),
                        It::R4(_) => panic!("harness: at most four rev() per session"),
                        It::Dead => panic!("harness: iterator call on a dead iterator"),
                    };
                    Out::Unit
                }
                "it_end" => {
                    it = It::Dead;
                    Out::Unit
                }
                other => panic!("harness: unknown iterator call {}", other),
            }
        }));
        outs.push(match r {
            Ok(o) => o,
            Err(e) => {
                let msg = e.downcast_ref::<String>().cloned().or_else(|| e.downcast_ref::<&str>().map(|s| s.to_string())).unwrap_or_default();
                if msg.starts_with("harness:") {
                    eprintln!("HARNESS-ERROR {}", msg);
                    std::process::exit(2);
                }
                Out::Panic
            }
        });
    }
    outs
}

/// Run a whole iterator session (a list of calls starting with it_new) on `x`.
pub fn iter_session(x: &AnyBv, calls: &[(String, u128)], via_into_iter: bool) -> Vec<Out> {
    with_any!(x, v => it_session(v, calls, via_into_iter))
}
