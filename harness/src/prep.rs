//! Ways of producing a vector with given bits: fresh, or through a history that leaves spare
//! capacity, another storage mode, or storage that has held other data before.

use crate::exec::convert_any;
use crate::kinds::*;
use crate::with_kind;
use bva::{Bit, BitVector, Bv, Bvd};
use std::panic::{catch_unwind, AssertUnwindSafe};

#[derive(Clone, Copy, PartialEq, Eq, Hash, Debug)]
pub enum Prep {
    /// zeros(n) + set
    Fresh,
    /// with_capacity(n + 130), resize, set: spare capacity (heap mode for the auto type)
    Spare,
    /// with_capacity(0) then push bit by bit
    Pushed,
    /// n + k bits with ones above, then resize(n): the storage above len has held ones
    Shrunk,
    /// n + k bits with ones above, then truncate(n) (a default trait method a type may override)
    Truncated,
    /// n + 3 bits with ones above, then pop three times
    Popped,
    /// fresh, then reserve(200)
    Reserved,
    /// auto type only: heap storage whatever the length
    Heap,
    /// fresh in another kind, then converted
    Conv(Kind),
    /// ones(n) then and-ed / xor-ed into shape through the operators
    Masked,
    /// the result of an addition that wraps around 2^n (or not): a += b with a + b = bits (mod 2^n)
    Summed,
    /// zeros(n) |= &y where y, of another kind, holds the bits followed by three ones above n
    Ored(Kind),
}

pub const PREPS: [Prep; 11] = [
    Prep::Fresh,
    Prep::Spare,
    Prep::Pushed,
    Prep::Shrunk,
    Prep::Truncated,
    Prep::Popped,
    Prep::Reserved,
    Prep::Heap,
    Prep::Conv(Kind::D),
    Prep::Masked,
    Prep::Summed,
];

impl Prep {
    pub fn name(self) -> String {
        match self {
            Prep::Fresh => "fresh".into(),
            Prep::Spare => "spare".into(),
            Prep::Pushed => "pushed".into(),
            Prep::Shrunk => "shrunk".into(),
            Prep::Popped => "popped".into(),
            Prep::Truncated => "truncated".into(),
            Prep::Reserved => "reserved".into(),
            Prep::Heap => "heap".into(),
            Prep::Conv(k) => format!("conv:{}", k.name()),
            Prep::Masked => "masked".into(),
            Prep::Summed => "summed".into(),
            Prep::Ored(k) => format!("ored:{}", k.name()),
        }
    }
    pub fn from_name(s: &str) -> Option<Prep> {
        if let Some(k) = s.strip_prefix("conv:") {
            return Kind::from_name(k).map(Prep::Conv);
        }
        if let Some(k) = s.strip_prefix("ored:") {
            return Kind::from_name(k).map(Prep::Ored);
        }
        PREPS.iter().copied().find(|p| p.name() == s)
    }
}

fn reserve_any(v: &mut AnyBv, k: usize) {
    match v {
        AnyBv::D(d) => d.reserve(k),
        AnyBv::A(a) => a.reserve(k),
        _ => {}
    }
}

fn try_make(kind: Kind, bits: &[u8], prep: Prep) -> Option<AnyBv> {
    let n = bits.len();
    let cap = kind.fixed_cap().unwrap_or(usize::MAX);
    match prep {
        Prep::Fresh => Some(AnyBv::fresh(kind, bits)),
        Prep::Spare => {
            if kind.is_fixed() {
                return None;
            }
            Some(with_kind!(kind, T => {
                let mut v = T::with_capacity(n + 130);
                v.resize(n, Bit::Zero);
                for (i, b) in bits.iter().enumerate() { if *b != 0 { v.set(i, Bit::One); } }
                v.into_any()
            }))
        }
        Prep::Pushed => Some(with_kind!(kind, T => {
            let mut v = T::with_capacity(0);
            for b in bits { v.push(bit(*b)); }
            v.into_any()
        })),
        Prep::Shrunk | Prep::Truncated => {
            let k = if n % 64 < 60 { 70 - n % 7 } else { 3 };
            let k = k.min(cap - n);
            if k == 0 {
                return None;
            }
            let mut long = bits.to_vec();
            long.extend(std::iter::repeat(1).take(k));
            let by_truncate = prep == Prep::Truncated;
            Some(with_kind!(kind, T => {
                let mut v = build::<T>(&long);
                if by_truncate { v.truncate(n); } else { v.resize(n, Bit::Zero); }
                v.into_any()
            }))
        }
        Prep::Popped => {
            if n + 3 > cap {
                return None;
            }
            let mut long = bits.to_vec();
            long.extend([1, 1, 1]);
            Some(with_kind!(kind, T => {
                let mut v = build::<T>(&long);
                v.pop(); v.pop(); v.pop();
                v.into_any()
            }))
        }
        Prep::Reserved => {
            if kind.is_fixed() {
                return None;
            }
            let mut v = AnyBv::fresh(kind, bits);
            reserve_any(&mut v, 200);
            Some(v)
        }
        Prep::Heap => {
            if kind != Kind::A {
                return None;
            }
            Some(AnyBv::A(Bv::Dynamic(build::<Bvd>(bits))))
        }
        Prep::Conv(from) => {
            if from == kind || !from.admits(n) {
                return None;
            }
            let src = AnyBv::fresh(from, bits);
            convert_any(&src, kind, false)
        }
        Prep::Summed => {
            if n == 0 || n > 128 {
                return None;
            }
            let mask: u128 = if n == 128 { u128::MAX } else { (1u128 << n) - 1 };
            let v = bits_int(bits);
            // half of the time b > v: the sum wraps around 2^n
            let b: u128 = (if n % 2 == 0 { v.wrapping_add(1 + (n as u128 % 7)) } else { v / 2 + 1 }) & mask & (u64::MAX as u128);
            let a = v.wrapping_sub(b) & mask;
            let mut x = AnyBv::fresh(kind, &int_bits(a, n));
            let o = crate::exec::exec_keep(&mut x, &crate::exec::Y::Int(IntTy::U64, b), "add", "ar", &crate::out::Args::default());
            if o != crate::out::Out::Unit {
                return None;
            }
            Some(x)
        }
        Prep::Ored(from) => {
            if from == kind || !from.admits(n + 3) {
                return None;
            }
            let mut yb = bits.to_vec();
            yb.extend([1, 1, 1]);
            let y = AnyBv::fresh(from, &yb);
            let mut x = AnyBv::fresh(kind, &vec![0u8; n]);
            let o = crate::exec::exec_keep(&mut x, &crate::exec::Y::Vec(y), if n % 2 == 0 { "or" } else { "xor" }, "ar", &crate::out::Args::default());
            if o != crate::out::Out::Unit {
                return None;
            }
            Some(x)
        }
        Prep::Masked => {
            if n == 0 {
                return None;
            }
            // ones(n) ^ !bits == bits
            let inv: Bits = bits.iter().map(|b| 1 - b).collect();
            Some(with_kind!(kind, T => {
                let mut v = T::ones(n);
                let m = build::<T>(&inv);
                v ^= &m;
                v.into_any()
            }))
        }
    }
}

/// Build a vector of `kind` holding `bits` the way `prep` says.  Falls back to the fresh
/// construction (second component false) when the preparation does not apply to this kind/length,
/// panics, or does not produce the intended bits (a defect of some *other* operation).
pub fn make(kind: Kind, bits: &[u8], prep: Prep) -> (AnyBv, bool) {
    let r = catch_unwind(AssertUnwindSafe(|| try_make(kind, bits, prep)));
    if let Ok(Some(v)) = r {
        let ok = catch_unwind(AssertUnwindSafe(|| v.len() == bits.len() && v.bits() == bits)).unwrap_or(false);
        if ok {
            return (v, true);
        }
    }
    (AnyBv::fresh(kind, bits), prep == Prep::Fresh)
}
