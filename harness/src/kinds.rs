//! The concrete instantiations of the three implementations that the harness drives,
//! a dynamically typed wrapper around them and the dispatch macros.

use bva::{Bit, BitVector, Bv, Bvd, Bvf};

pub type Bits = Vec<u8>;

pub type F8x1 = Bvf<u8, 1>;
pub type F8x2 = Bvf<u8, 2>;
pub type F8x3 = Bvf<u8, 3>;
pub type F8x4 = Bvf<u8, 4>;
pub type F16x1 = Bvf<u16, 1>;
pub type F16x4 = Bvf<u16, 4>;
pub type F32x1 = Bvf<u32, 1>;
pub type F32x4 = Bvf<u32, 4>;
pub type F64x1 = Bvf<u64, 1>;
pub type F64x2 = Bvf<u64, 2>;
pub type F64x4 = Bvf<u64, 4>;
pub type F128x1 = Bvf<u128, 1>;
pub type F128x4 = Bvf<u128, 4>;
pub type Fux1 = Bvf<usize, 1>;
pub type Fux4 = Bvf<usize, 4>;
pub type D = Bvd;
pub type A = Bv;

#[derive(Clone, Copy, PartialEq, Eq, Hash, Debug, PartialOrd, Ord)]
#[repr(u8)]
pub enum Kind {
    F8x1,
    F8x2,
    F8x3,
    F8x4,
    F16x1,
    F16x4,
    F32x1,
    F32x4,
    F64x1,
    F64x2,
    F64x4,
    F128x1,
    F128x4,
    Fux1,
    Fux4,
    D,
    A,
}

pub const ALL_KINDS: [Kind; 17] = [
    Kind::F8x1,
    Kind::F8x2,
    Kind::F8x3,
    Kind::F8x4,
    Kind::F16x1,
    Kind::F16x4,
    Kind::F32x1,
    Kind::F32x4,
    Kind::F64x1,
    Kind::F64x2,
    Kind::F64x4,
    Kind::F128x1,
    Kind::F128x4,
    Kind::Fux1,
    Kind::Fux4,
    Kind::D,
    Kind::A,
];

impl Kind {
    pub fn name(self) -> &'static str {
        match self {
            Kind::F8x1 => "F8x1",
            Kind::F8x2 => "F8x2",
            Kind::F8x3 => "F8x3",
            Kind::F8x4 => "F8x4",
            Kind::F16x1 => "F16x1",
            Kind::F16x4 => "F16x4",
            Kind::F32x1 => "F32x1",
            Kind::F32x4 => "F32x4",
            Kind::F64x1 => "F64x1",
            Kind::F64x2 => "F64x2",
            Kind::F64x4 => "F64x4",
            Kind::F128x1 => "F128x1",
            Kind::F128x4 => "F128x4",
            Kind::Fux1 => "Fux1",
            Kind::Fux4 => "Fux4",
            Kind::D => "D",
            Kind::A => "A",
        }
    }
    pub fn from_name(s: &str) -> Option<Kind> {
        ALL_KINDS.iter().copied().find(|k| k.name() == s)
    }
    /// "F", "D" or "A"
    pub fn class(self) -> &'static str {
        match self {
            Kind::D => "D",
            Kind::A => "A",
            _ => "F",
        }
    }
    pub fn is_fixed(self) -> bool {
        self.class() == "F"
    }
    /// fixed capacity in bits (None for the growable kinds)
    pub fn fixed_cap(self) -> Option<usize> {
        Some(match self {
            Kind::F8x1 => 8,
            Kind::F8x2 => 16,
            Kind::F8x3 => 24,
            Kind::F8x4 => 32,
            Kind::F16x1 => 16,
            Kind::F16x4 => 64,
            Kind::F32x1 => 32,
            Kind::F32x4 => 128,
            Kind::F64x1 => 64,
            Kind::F64x2 => 128,
            Kind::F64x4 => 256,
            Kind::F128x1 => 128,
            Kind::F128x4 => 512,
            Kind::Fux1 => 64,
            Kind::Fux4 => 256,
            Kind::D | Kind::A => return None,
        })
    }
    /// storage word size in bits
    pub fn word(self) -> usize {
        match self {
            Kind::F8x1 | Kind::F8x2 | Kind::F8x3 | Kind::F8x4 => 8,
            Kind::F16x1 | Kind::F16x4 => 16,
            Kind::F32x1 | Kind::F32x4 => 32,
            Kind::F128x1 | Kind::F128x4 => 128,
            _ => 64,
        }
    }
    pub fn admits(self, len: usize) -> bool {
        self.fixed_cap().map_or(true, |c| len <= c)
    }
}

#[derive(Clone, Debug)]
pub enum AnyBv {
    F8x1(F8x1),
    F8x2(F8x2),
    F8x3(F8x3),
    F8x4(F8x4),
    F16x1(F16x1),
    F16x4(F16x4),
    F32x1(F32x1),
    F32x4(F32x4),
    F64x1(F64x1),
    F64x2(F64x2),
    F64x4(F64x4),
    F128x1(F128x1),
    F128x4(F128x4),
    Fux1(Fux1),
    Fux4(Fux4),
    D(D),
    A(A),
}

/// `with_kind!(kind, T => expr)` evaluates `expr` with the type alias `T` bound to the concrete type.
#[macro_export]
macro_rules! with_kind {
    ($k:expr, $T:ident => $body:expr) => {
        match $k {
            $crate::kinds::Kind::F8x1 => { type $T = $crate::kinds::F8x1; $body }
            $crate::kinds::Kind::F8x2 => { type $T = $crate::kinds::F8x2; $body }
            $crate::kinds::Kind::F8x3 => { type $T = $crate::kinds::F8x3; $body }
            $crate::kinds::Kind::F8x4 => { type $T = $crate::kinds::F8x4; $body }
            $crate::kinds::Kind::F16x1 => { type $T = $crate::kinds::F16x1; $body }
            $crate::kinds::Kind::F16x4 => { type $T = $crate::kinds::F16x4; $body }
            $crate::kinds::Kind::F32x1 => { type $T = $crate::kinds::F32x1; $body }
            $crate::kinds::Kind::F32x4 => { type $T = $crate::kinds::F32x4; $body }
            $crate::kinds::Kind::F64x1 => { type $T = $crate::kinds::F64x1; $body }
            $crate::kinds::Kind::F64x2 => { type $T = $crate::kinds::F64x2; $body }
            $crate::kinds::Kind::F64x4 => { type $T = $crate::kinds::F64x4; $body }
            $crate::kinds::Kind::F128x1 => { type $T = $crate::kinds::F128x1; $body }
            $crate::kinds::Kind::F128x4 => { type $T = $crate::kinds::F128x4; $body }
            $crate::kinds::Kind::Fux1 => { type $T = $crate::kinds::Fux1; $body }
            $crate::kinds::Kind::Fux4 => { type $T = $crate::kinds::Fux4; $body }
            $crate::kinds::Kind::D => { type $T = $crate::kinds::D; $body }
            $crate::kinds::Kind::A => { type $T = $crate::kinds::A; $body }
        }
    };
}

/// `with_any!(&any, v => expr)` / `with_any!(&mut any, v => expr)`: bind `v` to the inner vector.
#[macro_export]
macro_rules! with_any {
    ($a:expr, $v:ident => $body:expr) => {
        match $a {
            $crate::kinds::AnyBv::F8x1($v) => $body,
            $crate::kinds::AnyBv::F8x2($v) => $body,
            $crate::kinds::AnyBv::F8x3($v) => $body,
            $crate::kinds::AnyBv::F8x4($v) => $body,
            $crate::kinds::AnyBv::F16x1($v) => $body,
            $crate::kinds::AnyBv::F16x4($v) => $body,
            $crate::kinds::AnyBv::F32x1($v) => $body,
            $crate::kinds::AnyBv::F32x4($v) => $body,
            $crate::kinds::AnyBv::F64x1($v) => $body,
            $crate::kinds::AnyBv::F64x2($v) => $body,
            $crate::kinds::AnyBv::F64x4($v) => $body,
            $crate::kinds::AnyBv::F128x1($v) => $body,
            $crate::kinds::AnyBv::F128x4($v) => $body,
            $crate::kinds::AnyBv::Fux1($v) => $body,
            $crate::kinds::AnyBv::Fux4($v) => $body,
            $crate::kinds::AnyBv::D($v) => $body,
            $crate::kinds::AnyBv::A($v) => $body,
        }
    };
}

pub trait IntoAny {
    const KIND: Kind;
    fn into_any(self) -> AnyBv;
}
macro_rules! impl_into_any {
    ($($K:ident),+) => { $(
        impl IntoAny for $K {
            const KIND: Kind = Kind::$K;
            fn into_any(self) -> AnyBv { AnyBv::$K(self) }
        }
    )+ };
}
impl_into_any!(F8x1, F8x2, F8x3, F8x4, F16x1, F16x4, F32x1, F32x4, F64x1, F64x2, F64x4, F128x1, F128x4, Fux1, Fux4, D, A);

pub fn bit(b: u8) -> Bit {
    if b == 0 {
        Bit::Zero
    } else {
        Bit::One
    }
}
pub fn ub(b: Bit) -> u8 {
    match b {
        Bit::Zero => 0,
        Bit::One => 1,
    }
}

/// The trusted read-back: `len()` and `get(i)`.
pub fn bits_of<B: BitVector>(v: &B) -> Bits {
    (0..v.len()).map(|i| ub(v.get(i))).collect()
}

/// The trusted constructor: `zeros(n)` followed by `set(i, One)`.
pub fn build<B: BitVector>(bits: &[u8]) -> B {
    let mut v = B::zeros(bits.len());
    for (i, b) in bits.iter().enumerate() {
        if *b != 0 {
            v.set(i, Bit::One);
        }
    }
    v
}

impl AnyBv {
    pub fn kind(&self) -> Kind {
        match self {
            AnyBv::F8x1(_) => Kind::F8x1,
            AnyBv::F8x2(_) => Kind::F8x2,
            AnyBv::F8x3(_) => Kind::F8x3,
            AnyBv::F8x4(_) => Kind::F8x4,
            AnyBv::F16x1(_) => Kind::F16x1,
            AnyBv::F16x4(_) => Kind::F16x4,
            AnyBv::F32x1(_) => Kind::F32x1,
            AnyBv::F32x4(_) => Kind::F32x4,
            AnyBv::F64x1(_) => Kind::F64x1,
            AnyBv::F64x2(_) => Kind::F64x2,
            AnyBv::F64x4(_) => Kind::F64x4,
            AnyBv::F128x1(_) => Kind::F128x1,
            AnyBv::F128x4(_) => Kind::F128x4,
            AnyBv::Fux1(_) => Kind::Fux1,
            AnyBv::Fux4(_) => Kind::Fux4,
            AnyBv::D(_) => Kind::D,
            AnyBv::A(_) => Kind::A,
        }
    }
    pub fn bits(&self) -> Bits {
        with_any!(self, v => bits_of(v))
    }
    pub fn len(&self) -> usize {
        with_any!(self, v => v.len())
    }
    pub fn capacity(&self) -> usize {
        with_any!(self, v => v.capacity())
    }
    /// "i" inline / "h" heap for the auto type, "-" otherwise
    pub fn mode(&self) -> &'static str {
        match self {
            AnyBv::A(Bv::Fixed(_)) => "i",
            AnyBv::A(Bv::Dynamic(_)) => "h",
            _ => "-",
        }
    }
    pub fn fresh(kind: Kind, bits: &[u8]) -> AnyBv {
        with_kind!(kind, T => build::<T>(bits).into_any())
    }
    /// raw storage words, least significant first, as (word bits, words as u128)
    pub fn raw(&self) -> (usize, Vec<u128>) {
        match self.clone() {
            AnyBv::F8x1(v) => (8, v.into_inner().0.iter().map(|w| *w as u128).collect()),
            AnyBv::F8x2(v) => (8, v.into_inner().0.iter().map(|w| *w as u128).collect()),
            AnyBv::F8x3(v) => (8, v.into_inner().0.iter().map(|w| *w as u128).collect()),
            AnyBv::F8x4(v) => (8, v.into_inner().0.iter().map(|w| *w as u128).collect()),
            AnyBv::F16x1(v) => (16, v.into_inner().0.iter().map(|w| *w as u128).collect()),
            AnyBv::F16x4(v) => (16, v.into_inner().0.iter().map(|w| *w as u128).collect()),
            AnyBv::F32x1(v) => (32, v.into_inner().0.iter().map(|w| *w as u128).collect()),
            AnyBv::F32x4(v) => (32, v.into_inner().0.iter().map(|w| *w as u128).collect()),
            AnyBv::F64x1(v) => (64, v.into_inner().0.iter().map(|w| *w as u128).collect()),
            AnyBv::F64x2(v) => (64, v.into_inner().0.iter().map(|w| *w as u128).collect()),
            AnyBv::F64x4(v) => (64, v.into_inner().0.iter().map(|w| *w as u128).collect()),
            AnyBv::F128x1(v) => (128, v.into_inner().0.iter().copied().collect()),
            AnyBv::F128x4(v) => (128, v.into_inner().0.iter().copied().collect()),
            AnyBv::Fux1(v) => (64, v.into_inner().0.iter().map(|w| *w as u128).collect()),
            AnyBv::Fux4(v) => (64, v.into_inner().0.iter().map(|w| *w as u128).collect()),
            AnyBv::D(v) => (64, v.into_inner().0.iter().map(|w| *w as u128).collect()),
            AnyBv::A(Bv::Fixed(v)) => (64, v.into_inner().0.iter().map(|w| *w as u128).collect()),
            AnyBv::A(Bv::Dynamic(v)) => (64, v.into_inner().0.iter().map(|w| *w as u128).collect()),
        }
    }
    /// true iff every storage bit at an index >= len is zero
    pub fn canonical(&self) -> bool {
        let (w, words) = self.raw();
        let n = self.len();
        for (i, word) in words.iter().enumerate() {
            let lo = i * w;
            let used = if n > lo { (n - lo).min(w) } else { 0 };
            let garbage = if used >= 128 { 0 } else { *word >> used };
            if garbage != 0 {
                return false;
            }
        }
        true
    }
}

/// Native unsigned integer types.
#[derive(Clone, Copy, PartialEq, Eq, Hash, Debug)]
pub enum IntTy {
    U8,
    U16,
    U32,
    U64,
    U128,
    Usize,
}
pub const ALL_INTS: [IntTy; 6] = [IntTy::U8, IntTy::U16, IntTy::U32, IntTy::U64, IntTy::U128, IntTy::Usize];
impl IntTy {
    pub fn name(self) -> &'static str {
        match self {
            IntTy::U8 => "u8",
            IntTy::U16 => "u16",
            IntTy::U32 => "u32",
            IntTy::U64 => "u64",
            IntTy::U128 => "u128",
            IntTy::Usize => "usize",
        }
    }
    pub fn from_name(s: &str) -> Option<IntTy> {
        ALL_INTS.iter().copied().find(|k| k.name() == s)
    }
    pub fn width(self) -> usize {
        match self {
            IntTy::U8 => 8,
            IntTy::U16 => 16,
            IntTy::U32 => 32,
            IntTy::U64 | IntTy::Usize => 64,
            IntTy::U128 => 128,
        }
    }
    pub fn max(self) -> u128 {
        if self.width() == 128 {
            u128::MAX
        } else {
            (1u128 << self.width()) - 1
        }
    }
}

#[macro_export]
macro_rules! with_int {
    ($t:expr, $T:ident => $body:expr) => {
        match $t {
            $crate::kinds::IntTy::U8 => { type $T = u8; $body }
            $crate::kinds::IntTy::U16 => { type $T = u16; $body }
            $crate::kinds::IntTy::U32 => { type $T = u32; $body }
            $crate::kinds::IntTy::U64 => { type $T = u64; $body }
            $crate::kinds::IntTy::U128 => { type $T = u128; $body }
            $crate::kinds::IntTy::Usize => { type $T = usize; $body }
        }
    };
}

pub fn int_bits(v: u128, width: usize) -> Bits {
    (0..width).map(|i| ((v >> i) & 1) as u8).collect()
}
pub fn bits_int(bits: &[u8]) -> u128 {
    let mut v = 0u128;
    for (i, b) in bits.iter().enumerate() {
        if *b != 0 && i < 128 {
            v |= 1u128 << i;
        }
    }
    v
}
