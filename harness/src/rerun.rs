//! `rerun FILE`: re-executes a recorded case (the events of a violation file: history prefix + the
//! offending event) on the current build and writes the newly observed events as a trace, which the
//! caller validates with TLC again.

use crate::drive::Tier;
use crate::drive2::*;
use crate::exec::*;
use crate::kinds::*;
use crate::matrix::*;
use crate::out::*;
use crate::prep::*;
use serde_json::{json, Value};
use std::collections::HashMap;

fn bits(v: &Value) -> Bits {
    v.as_array().map(|a| a.iter().map(|x| x.as_u64().unwrap_or(0) as u8).collect()).unwrap_or_default()
}

fn sop(op: &str) -> &'static str {
    Box::leak(op.to_string().into_boxed_str())
}

fn step_from(ev: &Value) -> Step {
    let a = Args::from_json(&ev["a"]);
    let y = &ev["y"];
    let (ys, yk) = match y["cl"].as_str().unwrap_or("-") {
        "I" => {
            let t = IntTy::from_name(y["k"].as_str().unwrap_or("")).unwrap();
            let v: u128 = y["iv"].as_str().and_then(|s| s.parse().ok()).unwrap_or_else(|| bits_int(&bits(&y["b"])));
            (YSpec::Int(t, v), None)
        }
        "F" | "D" | "A" => {
            if ev["op"] == "convert" {
                (YSpec::Target(Kind::from_name(y["k"].as_str().unwrap_or("")).unwrap()), None)
            } else {
                (YSpec::Bits(bits(&y["b"])), Kind::from_name(y["k"].as_str().unwrap_or("")))
            }
        }
        _ => (YSpec::None, None),
    };
    Step { op: sop(ev["op"].as_str().unwrap_or("?")), f: sop(ev["f"].as_str().unwrap_or("")), y: ys, ykind: yk, a }
}

fn build_subject(ev: &Value) -> AnyBv {
    let k = Kind::from_name(ev["x"]["k"].as_str().unwrap_or("")).expect("harness: unknown subject kind in replay file");
    let prep = Prep::from_name(ev["x"]["p"].as_str().unwrap_or("fresh")).unwrap_or(Prep::Fresh);
    make(k, &bits(&ev["x"]["b"]), prep).0
}

fn operand_of(st: &Step, ev: &Value) -> (Y, Value) {
    match &st.y {
        YSpec::Bits(b) => {
            let prep = Prep::from_name(ev["y"]["p"].as_str().unwrap_or("fresh")).unwrap_or(Prep::Fresh);
            let (v, ok) = make(st.ykind.unwrap(), b, prep);
            let d = ydesc_vec(&v, &if ok { prep.name() } else { "fresh".into() });
            (Y::Vec(v), d)
        }
        _ => st.operand(),
    }
}

pub fn rerun(path: &str, dbg: bool, out: &str) {
    let text = std::fs::read_to_string(path).expect("harness: cannot read replay file");
    let v: Value = serde_json::from_str(&text).expect("harness: replay file is not JSON");
    let mut events: Vec<Value> = v["prefix"].as_array().cloned().unwrap_or_default();
    events.push(v["event"].clone());
    let t = Tier { quick: true, seed: 0, dbg };
    let mut outv: Vec<Value> = vec![json!({"op": "hdr", "source": "rerun", "file": path})];
    let mut live: Option<AnyBv> = None;
    let mut ids: HashMap<Vec<u8>, u64> = HashMap::new();
    let mut i = 0;
    while i < events.len() {
        let ev = &events[i];
        let op = ev["op"].as_str().unwrap_or("");
        if op == "hdr" {
            i += 1;
            continue;
        }
        if op == "convert" && (Kind::from_name(ev["x"]["k"].as_str().unwrap_or("")).is_none() || (ev["y"]["cl"] != "-" && Kind::from_name(ev["y"]["k"].as_str().unwrap_or("")).is_none())) {
            // a conversion between instantiations outside the kind matrix (drive_c12_wide): run that driver
            // in both scopes and keep the events with this source type, target type, bits and form
            let mut n = 0u64;
            let mut found = false;
            for quick in [true, false] {
                let tt = Tier { quick, seed: 1, dbg };
                for e2 in crate::drive::c12_wide_events(&tt, &mut n) {
                    if !found && e2["x"]["k"] == ev["x"]["k"] && e2["y"]["k"] == ev["y"]["k"] && e2["x"]["b"] == ev["x"]["b"] && e2["a"] == ev["a"] {
                        outv.push(e2);
                        found = true;
                    }
                }
            }
            if !found {
                eprintln!("HARNESS-ERROR the wide conversion of the replay file is not among the driven ones");
                std::process::exit(2);
            }
            i += 1;
            continue;
        }
        if op.starts_with("it_") {
            // a whole iterator session: it_new .. (it_end | it_count | it_last | end of file)
            let mut j = i;
            let mut session: Vec<(String, u128)> = Vec::new();
            while j < events.len() && events[j]["op"].as_str().unwrap_or("").starts_with("it_") {
                let a = Args::from_json(&events[j]["a"]);
                session.push((events[j]["op"].as_str().unwrap().to_string(), a.n.unwrap_or(0)));
                j += 1;
                if matches!(session.last().unwrap().0.as_str(), "it_end" | "it_count" | "it_last") {
                    break;
                }
            }
            let x = build_subject(ev);
            let outs = iter_session(&x, &session, false);
            outv.extend(session_events(&t, &x, &session, &outs, 1));
            i = j;
            continue;
        }
        let st = step_from(ev);
        let cf = ev["cf"].as_str().unwrap_or("fun");
        if ev["nb"] == 1 || live.is_none() || ev["r"] == "probe" {
            if ev["r"] == "probe" {
                // probes run on clones of the live subject
            } else {
                live = Some(build_subject(ev));
            }
        }
        let mut probe_clone = live.clone().unwrap_or_else(|| build_subject(ev));
        let x: &mut AnyBv = if ev["r"] == "probe" { &mut probe_clone } else { live.as_mut().unwrap() };
        match cf {
            "forms" => {
                let forms: Vec<&'static str> = ev["forms"].as_array().map(|fs| fs.iter().map(|f| sop(f["f"].as_str().unwrap_or(""))).collect()).unwrap_or_default();
                let (e2, _) = forms_event(&t, st.op, x.kind(), &bits(&ev["x"]["b"]), &st.y, st.ykind, &st.a, &forms);
                outv.push(e2);
            }
            "hash" => {
                let pre = observe(x);
                let mut xc = x.clone();
                let hop = if ev["op"] == "hash_slice" { "hash_slice" } else { "hash" };
                let stream = match exec(&mut xc, &Y::None, hop, "", &Args::default()) {
                    Out::Bytes(s) => s,
                    _ => vec![0xEE],
                };
                let next = ids.len() as u64 + 1;
                let id = *ids.entry(stream).or_insert(next);
                let mut e2 = json!({"op": hop, "f": "", "r": ev["r"], "nb": 1, "cf": "hash", "dbg": dbg as u8, "x": xdesc(x, &pre, ev["x"]["p"].as_str().unwrap_or("fresh")),
                    "y": ydesc_none(), "a": {}, "px": pdesc(&observe(&xc)), "py": [], "o": Out::Unit.to_json()});
                e2["h"] = json!(id);
                outv.push(e2);
            }
            "twin" => {
                let cur = x.bits();
                let mut tw = AnyBv::fresh(x.kind(), &cur);
                let (mut e2, _, _) = twin_call(&t, &st, ev["nb"].as_u64().unwrap_or(1) as u8, x, &mut tw);
                e2["r"] = ev["r"].clone();
                outv.push(e2);
            }
            _ => {
                let pre = observe(x);
                let (yv, yd) = operand_of(&st, ev);
                let mut a = st.a.clone();
                if let YSpec::Target(k) = &st.y {
                    a.tk = Some(*k);
                }
                let o = exec(x, &yv, st.op, st.f, &a);
                let results = take_stash();
                let post = observe(x);
                let mut e2 = json!({"op": st.op, "f": st.f, "r": ev["r"], "nb": ev["nb"], "cf": cf, "dbg": dbg as u8,
                    "x": xdesc(x, &pre, ev["x"]["p"].as_str().unwrap_or("fresh")), "y": yd, "a": a.to_json(), "px": pdesc(&post), "py": yv.bits(), "o": o.to_json()});
                e2["pr"] = json!(probes(x, &o, &results));
                if ev["op"] == "bit_from_int" || ev["op"] == "bit_to_int" {
                    e2 = ev.clone(); // Bit conversions are re-driven as a whole by the C11 driver
                }
                outv.push(e2);
            }
        }
        i += 1;
    }
    std::fs::create_dir_all(std::path::Path::new(out).parent().unwrap()).ok();
    let mut s = String::new();
    for e in outv {
        s.push_str(&e.to_string());
        s.push('\n');
    }
    std::fs::write(out, s).expect("harness: cannot write rerun trace");
}
