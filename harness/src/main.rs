mod exec;
mod fmtgen;
mod kinds;
mod out;
fn main() {
    let mut x = kinds::AnyBv::fresh(kinds::Kind::F8x2, &[1, 0, 1]);
    let y = exec::Y::Vec(kinds::AnyBv::fresh(kinds::Kind::D, &[1, 1]));
    let o = exec::exec(&mut x, &y, "add", "rr", &out::Args::default());
    println!("{}", o.to_json());
}
