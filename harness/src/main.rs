#![allow(dead_code)]
mod drive;
mod drive2;
mod exec;
mod fmtgen;
mod gen;
mod kinds;
mod matrix;
mod out;
mod prep;
mod progress;
mod replay;
mod rerun;
mod sink;

use drive::Tier;
use serde_json::json;

fn arg(args: &[String], name: &str, default: &str) -> String {
    args.iter().position(|a| a == name).and_then(|i| args.get(i + 1)).cloned().unwrap_or_else(|| default.to_string())
}

fn main() {
    // panics of the code under test are data: keep them off stderr
    std::panic::set_hook(Box::new(|info| {
        let msg = info.payload().downcast_ref::<String>().cloned().or_else(|| info.payload().downcast_ref::<&str>().map(|s| s.to_string())).unwrap_or_default();
        if msg.starts_with("harness:") {
            eprintln!("HARNESS-PANIC {} at {:?}", msg, info.location());
        }
    }));
    let args: Vec<String> = std::env::args().collect();
    let cmd = args.get(1).map(|s| s.as_str()).unwrap_or("");
    progress::init_current_file();
    progress::start_watchdog(std::env::var("VERIF_HANG_SECS").ok().and_then(|s| s.parse().ok()).unwrap_or(120));
    let dbg = cfg!(debug_assertions);
    let profile = if dbg { "dev" } else { "release" };
    match cmd {
        "drive" => {
            let prop = args.get(2).expect("usage: drive <PROP> --tier T --seed S --out DIR --shards K").clone();
            let tier = arg(&args, "--tier", "quick");
            let seed: u64 = arg(&args, "--seed", "1").parse().expect("seed");
            let out = arg(&args, "--out", "out");
            let shards: usize = arg(&args, "--shards", "8").parse().expect("shards");
            let t = Tier { quick: tier != "thorough", seed, dbg };
            let hdr = json!({"prop": prop, "tier": tier, "seed": seed, "profile": profile, "debug_assertions": dbg, "big": 1u64 << 30});
            let mut sink = sink::Sink::new(&out, &prop, profile, shards, &hdr);
            let mut m = matrix::Matrix::new(dbg, if t.quick { 3 } else { 5 });
            let mut stats = drive2::Stats::default();
            let all = matrix_kinds();
            match prop.as_str() {
                "C01" => {
                    drive::drive_c01(&t, &mut m, &mut sink);
                    drive2::drive_focus_histories(&t, &mut sink, &["add", "sub", "mul"], &[3, 4, 5], &all, t.q(170, 1700), t.q(12, 20), &mut stats);
                }
                "C02" => {
                    drive::drive_c02(&t, &mut m, &mut sink);
                    drive2::drive_focus_histories(&t, &mut sink, &["div", "rem", "div_rem"], &[11], &all, t.q(170, 1700), t.q(12, 20), &mut stats);
                }
                "C03" => drive2::drive_c03(&t, &mut sink, &mut stats),
                "C04" => {
                    drive::drive_c04(&t, &mut m, &mut sink);
                    drive2::drive_focus_histories(&t, &mut sink, &["and", "or", "xor", "not"], &[0, 1, 2, 9], &all, t.q(170, 1700), t.q(12, 20), &mut stats);
                }
                "C05" => {
                    drive::drive_c05(&t, &mut m, &mut sink);
                    drive2::drive_focus_histories(&t, &mut sink, &["shl", "shr", "shl_in", "shr_in"], &[], &all, t.q(170, 1700), t.q(12, 20), &mut stats);
                }
                "C06" => {
                    drive::drive_c06(&t, &mut m, &mut sink);
                    drive2::drive_focus_histories(&t, &mut sink, &["rotl", "rotr"], &[], &all, t.q(170, 1700), t.q(12, 20), &mut stats);
                }
                "C07" => {
                    drive::drive_c07_cases(&t, &mut m, &mut sink);
                    drive2::drive_histories(&t, &mut sink, drive2::Profile::Edits, "fun", &all, t.q(400, 2400), t.q(25, 40), &mut stats);
                    drive2::drive_focus_histories(&t, &mut sink, &["push", "pop", "set", "resize", "truncate", "sign_extend", "append", "prepend", "insert", "extend"], &[7, 8], &all, t.q(170, 1700), t.q(12, 20), &mut stats);
                }
                "C08" => {
                    drive::drive_c08(&t, &mut m, &mut sink);
                    drive2::drive_focus_histories(&t, &mut sink, &["copy_range", "split_off", "split", "first", "last"], &[], &all, t.q(170, 1700), t.q(12, 20), &mut stats);
                }
                "C09" => {
                    drive::drive_c09(&t, &mut m, &mut sink);
                    drive2::drive_focus_histories(&t, &mut sink, &["eq", "lt", "ge", "pcmp", "cmp"], &[6, 10], &all, t.q(170, 1700), t.q(12, 20), &mut stats);
                }
                "C10" => {
                    drive2::drive_c10(&t, &mut sink, &mut stats);
                    drive2::drive_focus_histories(&t, &mut sink, &["hash", "hash_slice", "hs_contains"], &[], &all, t.q(170, 1700), t.q(12, 20), &mut stats);
                }
                "C11" => {
                    drive::drive_c11(&t, &mut m, &mut sink);
                    sink.emit(drive::bit_conversion_events(dbg));
                    drive2::drive_focus_histories(&t, &mut sink, &["to_int"], &[], &all, t.q(170, 1700), t.q(12, 20), &mut stats);
                }
                "C12" => {
                    drive::drive_c12(&t, &mut m, &mut sink);
                    drive::drive_c12_wide(&t, &mut sink, &mut stats.execs);
                    drive2::drive_focus_histories(&t, &mut sink, &["convert", "clone", "new_inner"], &[], &all, t.q(170, 1700), t.q(12, 20), &mut stats);
                }
                "C13" => {
                    drive::drive_c13(&t, &mut m, &mut sink);
                    drive2::drive_focus_histories(&t, &mut sink, &["to_vec", "write"], &[], &all, t.q(170, 1700), t.q(12, 20), &mut stats);
                }
                "C14" => {
                    drive::drive_c14(&t, &mut m, &mut sink);
                    drive2::drive_focus_histories(&t, &mut sink, &["fmt"], &[], &all, t.q(170, 1700), t.q(12, 20), &mut stats);
                }
                "C15" => drive::drive_c15(&t, &mut m, &mut sink),
                "C16" => {
                    drive::drive_c16(&t, &mut m, &mut sink);
                    drive2::drive_focus_histories(&t, &mut sink, &["leading_zeros", "leading_ones", "trailing_zeros", "trailing_ones", "significant_bits", "is_zero"], &[], &all, t.q(170, 1700), t.q(12, 20), &mut stats);
                }
                "C17" => drive2::drive_c17(&t, &mut sink, &mut stats),
                "C18" => {
                    drive2::drive_c18_targeted(&t, &mut sink, &mut stats);
                    let ks = [kinds::Kind::D, kinds::Kind::A];
                    drive2::drive_histories(&t, &mut sink, drive2::Profile::Cap, "cap", &ks, t.q(500, 3000), t.q(30, 50), &mut stats);
                    let fk: Vec<kinds::Kind> = all.iter().copied().filter(|k| k.is_fixed()).collect();
                    drive2::drive_histories(&t, &mut sink, drive2::Profile::Cap, "cap", &fk, t.q(56, 560), t.q(15, 30), &mut stats);
                }
                "C19" => drive2::drive_c19(&t, &mut m, &mut sink),
                "C20" => drive2::drive_c20(&t, &mut sink, &mut stats),
                other => {
                    eprintln!("HARNESS-ERROR unknown property {}", other);
                    std::process::exit(2);
                }
            }
            let (lines, samples, total) = sink.finish();
            println!(
                "{}",
                json!({"prop": prop, "profile": profile, "events": total, "shard_lines": lines, "execs": m.execs + stats.execs,
                       "prep_fallbacks": m.prep_fallbacks, "histories": stats.histories, "twin_agree": stats.agree, "twin_differ": stats.differ,
                       "by_kind": m.by_kind, "by_op": m.by_op, "samples": samples})
            );
        }
        "replay" => {
            let prop = args.get(2).expect("usage: replay <PROP> [--max-fail N]").clone();
            let max_fail: usize = arg(&args, "--max-fail", "20").parse().expect("max-fail");
            let out = arg(&args, "--out", "out");
            replay::replay_stdin(&prop, dbg, profile, max_fail, &out);
        }
        "replay-hist" => {
            let prop = args.get(2).expect("usage: replay-hist <PROP> --out DIR").clone();
            let out = arg(&args, "--out", "out");
            let shards: usize = arg(&args, "--shards", "6").parse().expect("shards");
            let per: usize = arg(&args, "--per", "5").parse().expect("per");
            replay::replay_hist_stdin(&prop, dbg, profile, &out, shards, per);
        }
        "rerun" => {
            let file = args.get(2).expect("usage: rerun FILE --out TRACE").clone();
            let out = arg(&args, "--out", "out/rerun.ndjson");
            rerun::rerun(&file, dbg, &out);
        }
        "replay-iter" => {
            let prop = args.get(2).expect("usage: replay-iter <PROP> --out DIR").clone();
            let out = arg(&args, "--out", "out");
            let shards: usize = arg(&args, "--shards", "6").parse().expect("shards");
            replay::replay_iter_stdin(&prop, dbg, profile, &out, shards);
        }
        _ => {
            eprintln!("usage: bva-verif-harness drive|replay|replay-hist|replay-iter ...");
            std::process::exit(2);
        }
    }
}

fn matrix_kinds() -> Vec<kinds::Kind> {
    kinds::ALL_KINDS.to_vec()
}
