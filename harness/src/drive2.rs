//! Drivers for the history-quantified and relational properties: live histories (C07, C18, C03),
//! hashing (C10), iterator sessions (C17), overflow signalling (C19), operator forms (C20).

use crate::drive::*;
use crate::exec::*;
use crate::gen::*;
use crate::kinds::*;
use crate::matrix::*;
use crate::out::*;
use crate::prep::*;
use crate::sink::Sink;
pub use crate::drive::Tier;
use serde_json::{json, Value};
use std::collections::HashMap;

#[derive(Clone, Debug)]
pub struct Step {
    pub op: &'static str,
    pub f: &'static str,
    pub y: YSpec,
    pub ykind: Option<Kind>,
    pub a: Args,
}

impl Step {
    fn new(op: &'static str) -> Step {
        Step { op, f: "", y: YSpec::None, ykind: None, a: Args::default() }
    }
    fn a(mut self, a: Args) -> Step {
        self.a = a;
        self
    }
    fn f(mut self, f: &'static str) -> Step {
        self.f = f;
        self
    }
    fn yb(mut self, k: Kind, b: Bits) -> Step {
        self.y = YSpec::Bits(b);
        self.ykind = Some(k);
        self
    }
    fn yi(mut self, t: IntTy, v: u128) -> Step {
        self.y = YSpec::Int(t, v);
        self
    }
    pub fn operand(&self) -> (Y, Value) {
        match &self.y {
            YSpec::None => (Y::None, ydesc_none()),
            YSpec::Int(t, v) => (Y::Int(*t, *v), ydesc_int(*t, *v)),
            YSpec::Target(k) => (Y::None, ydesc_target(*k)),
            YSpec::Bits(b) => {
                let v = AnyBv::fresh(self.ykind.unwrap(), b);
                let d = ydesc_vec(&v, "fresh");
                (Y::Vec(v), d)
            }
        }
    }
}

#[derive(Clone, Copy, PartialEq, Eq)]
pub enum Profile {
    Edits,
    Cap,
    All,
}

/// a new length steered across word boundaries and the inline limit, within `cap`
fn steer_len(rng: &mut Rng, cur: usize, cap: usize) -> usize {
    let hi = cap.min(300);
    let l = match rng.below(6) {
        0 => cur + rng.below(4),
        1 => cur.saturating_sub(rng.below(4)),
        2 | 3 => {
            let b = *rng.pick(&BOUNDARY);
            (b + rng.below(3)).saturating_sub(1)
        }
        4 => rng.below(hi + 1),
        _ => cur + 60 + rng.below(10),
    };
    l.min(hi)
}

fn small_operand(rng: &mut Rng, room: usize) -> (Kind, Bits) {
    let len = match rng.below(6) {
        0 => 0,
        1 => 1 + rng.below(3),
        2 => 8,
        3 => 60 + rng.below(10),
        4 => 125 + rng.below(8),
        _ => rng.below(20),
    }
    .min(room);
    let k = *rng.pick(&ALL_KINDS.iter().copied().filter(|k| k.admits(len)).collect::<Vec<_>>());
    (k, random_bits(rng, len))
}

/// One random public call on a subject of `kind` currently holding `cur`, never exceeding a fixed capacity.
pub fn gen_step(rng: &mut Rng, kind: Kind, cur: &Bits, profile: Profile) -> Step {
    let n = cur.len();
    let cap = kind.fixed_cap().unwrap_or(usize::MAX);
    let room = cap - n;
    let bitv = (rng.next() & 1) as u8;
    loop {
        let choice = match profile {
            Profile::Edits => rng.below(11),
            Profile::Cap => *rng.pick(&[0, 1, 3, 4, 6, 7, 8, 9, 11, 12, 13, 13, 12, 14, 20, 21, 30]),
            Profile::All => rng.below(31),
        };
        let st = match choice {
            0 => {
                if room == 0 {
                    continue;
                }
                Step::new("push").a(Args { bit: Some(bitv), ..Default::default() })
            }
            1 => Step::new("pop"),
            2 => {
                if n == 0 {
                    continue;
                }
                Step::new("set").a(Args { i: Some(rng.below(n)), bit: Some(bitv), ..Default::default() })
            }
            3 => Step::new("resize").a(Args { n: Some(steer_len(rng, n, cap) as u128), bit: Some(bitv), ..Default::default() }),
            4 => Step::new("truncate").a(Args::n(steer_len(rng, n, cap))),
            5 => Step::new("sign_extend").a(Args::n(steer_len(rng, n, cap))),
            6 => {
                let (k, b) = small_operand(rng, room);
                Step::new("append").yb(k, b)
            }
            7 => {
                let (k, b) = small_operand(rng, room);
                Step::new("prepend").yb(k, b)
            }
            8 => {
                let (k, b) = small_operand(rng, room);
                Step::new("insert").yb(k, b).a(Args { i: Some(rng.below(n + 1)), ..Default::default() })
            }
            9 => {
                let (_, b) = small_operand(rng, room);
                let lie = if rng.chance(1, 2) { pick_lie(rng) } else { None };
                Step::new("extend").a(Args { bits: Some(b), lie, ..Default::default() })
            }
            10 => Step::new("split_off").a(Args { i: Some(rng.below(n + 1)), ..Default::default() }),
            11 => Step::new("reserve").a(Args::n(*rng.pick(&[0usize, 1, 63, 64, 65, 128, 200, 129]))),
            12 => Step::new("shrink_to_fit"),
            13 | 14 | 15 => {
                // arithmetic / logic with an operand that may be longer than the subject
                let op = *rng.pick(&["add", "sub", "or", "xor", "and", "mul"]);
                let f = *rng.pick(&["av", "ar", "ar", "rr", "vv"]);
                if rng.chance(1, 4) {
                    let (t, v) = (*rng.pick(&ALL_INTS), rng.u128());
                    Step::new(op).f(f).yi(t, v & t.max())
                } else {
                    let rb = rng.below(n + 2);
                    let len = *rng.pick(&[n, n + 1, n + 64, n + 130, 200, rb]);
                    let ks: Vec<Kind> = ALL_KINDS.iter().copied().filter(|k| k.admits(len)).collect();
                    let b = if rng.chance(1, 3) { ones(len) } else { random_bits(rng, len) };
                    Step::new(op).f(f).yb(*rng.pick(&ks), b)
                }
            }
            16 => Step::new("shl_in").a(Args { bit: Some(bitv), ..Default::default() }),
            17 => Step::new("shr_in").a(Args { bit: Some(bitv), ..Default::default() }),
            18 => Step::new("rotl").a(Args::n(rng.below(n + 1))),
            19 => Step::new("rotr").a(Args::n(rng.below(n + 1))),
            20 => {
                let ty = *rng.pick(&ALL_INTS);
                let k = *rng.pick(&[0usize, 1, 7, 8, 63, 64, 65, n / 2, n]) as u128;
                Step::new(*rng.pick(&["shl", "shr"])).f(*rng.pick(&["av", "ar", "rv", "vv"])).a(Args { n: Some(k.min(ty.max())), ity: Some(ty), ..Default::default() })
            }
            21 => Step::new("not").f(*rng.pick(&["v", "r"])),
            22 => {
                let s = rng.below(n + 1);
                let e = s + rng.below(n - s + 1);
                Step::new("copy_range").a(Args { i: Some(s), j: Some(e), ..Default::default() })
            }
            23 => {
                let op = *rng.pick(&["div", "rem"]);
                let (t, v) = (*rng.pick(&ALL_INTS), rng.u128());
                Step::new(op).f(*rng.pick(&["av", "ar", "rr"])).yi(t, (v & t.max()) | 1)
            }
            24 => {
                // re-construction through the byte / text interfaces keeps the value
                if n > cap {
                    continue;
                }
                Step::new("clone")
            }
            25 => Step::new("new_inner"),
            26 => {
                let ks: Vec<Kind> = ALL_KINDS.iter().copied().filter(|k| k.admits(n)).collect();
                Step { op: "convert", f: "", y: YSpec::Target(*rng.pick(&ks)), ykind: None, a: Args { byval: rng.chance(1, 2), ..Default::default() } }
            }
            27 => Step::new("split").a(Args { i: Some(rng.below(n + 1)), ..Default::default() }),
            28 => Step::new("push").a(Args { bit: Some(bitv), ..Default::default() }),
            30 => {
                // Clone::clone_from a source of the subject's own type, usually shorter than the subject
                // (the destination's storage may be reused)
                let rb = rng.below(n + 1);
                let len = (*rng.pick(&[0usize, n / 2, n.saturating_sub(1), n, n.saturating_sub(64), n.saturating_sub(65), rb, n + 3, 5])).min(cap);
                let b = if rng.chance(1, 3) { zeros(len) } else { random_bits(rng, len) };
                Step::new("clone_from").yb(kind, b)
            }
            _ => Step::new("resize").a(Args { n: Some(steer_len(rng, n, cap) as u128), bit: Some(bitv), ..Default::default() }),
        };
        // never exceed a fixed capacity here (overflow is C19's subject)
        let grows_to = match st.op {
            "push" => n + 1,
            "resize" | "sign_extend" => (st.a.n.unwrap() as usize).max(n),
            "append" | "prepend" | "insert" => n + match &st.y { YSpec::Bits(b) => b.len(), _ => 0 },
            "extend" => n + st.a.bits.as_ref().unwrap().len(),
            _ => n,
        };
        if grows_to > cap {
            continue;
        }
        return st;
    }
}

fn base_event(st: &Step, nb: u8, cf: &str, dbg: bool, x: &AnyBv, pre: &State, yd: Value, post: &State, py: Bits, o: &Out) -> Value {
    let mut a = st.a.clone();
    if let YSpec::Target(k) = &st.y {
        a.tk = Some(*k);
    }
    json!({
        "op": st.op, "f": st.f, "r": "s", "nb": nb, "cf": cf, "dbg": dbg as u8,
        "x": xdesc(x, pre, "live"), "y": yd, "a": a.to_json(),
        "px": pdesc(post), "py": py, "o": o.to_json(),
    })
}

fn run_step(x: &mut AnyBv, st: &Step) -> (Out, Bits, Value, Vec<AnyBv>) {
    crate::progress::set_current(json!({"op": st.op, "f": st.f, "x": {"k": x.kind().name(), "b": x.bits()}, "y": format!("{:?}", st.y), "a": st.a.to_json()}).to_string());
    let (yv, yd) = st.operand();
    let mut a = st.a.clone();
    if let YSpec::Target(k) = &st.y {
        a.tk = Some(*k);
    }
    let o = exec(x, &yv, st.op, st.f, &a);
    let res = take_stash();
    (o, yv.bits(), yd, res)
}

/// After a call that returned a vector of the subject's own kind, the history may go on with the
/// RETURNED object (s = &s + &y), so that results of operators become subjects.
fn maybe_adopt(rng: &mut Rng, x: &mut AnyBv, results: Vec<AnyBv>) -> bool {
    for r in results {
        if r.kind() == x.kind() && rng.chance(1, 2) {
            *x = r;
            return true;
        }
    }
    false
}

// ------------------------------------------------------------------------------------------------
// C07 / C18: live histories validated step by step against the state machine
// ------------------------------------------------------------------------------------------------

pub fn drive_histories(t: &Tier, sink: &mut Sink, profile: Profile, cf: &'static str, kinds: &[Kind], histories: usize, steps: usize, stats: &mut Stats) {
    let mut rng = Rng::new(t.seed ^ 0x4157 ^ (cf.len() as u64) << 8);
    for h in 0..histories {
        let kind = kinds[h % kinds.len()];
        let cap = kind.fixed_cap().unwrap_or(300);
        let n0 = random_len(&mut rng, cap.min(140));
        let start = random_bits(&mut rng, n0);
        let preps = [Prep::Fresh, Prep::Spare, Prep::Heap, Prep::Pushed, Prep::Shrunk];
        let (mut x, _) = make(kind, &start, *rng.pick(&preps));
        let mut evs = Vec::new();
        let mut nb = 1u8;
        for _ in 0..steps {
            let cur = x.bits();
            let st = gen_step(&mut rng, kind, &cur, profile);
            let pre = observe(&x);
            let (o, py, yd, results) = run_step(&mut x, &st);
            let post = observe(&x);
            let mut ev = base_event(&st, nb, cf, t.dbg, &x, &pre, yd, &post, py, &o);
            ev["pr"] = json!(probes(&x, &o, &results));
            evs.push(ev);
            stats.execs += 1;
            nb = 0;
            if post.bits.is_none() || o == Out::Panic {
                break; // the object is no longer trustworthy; the event above tells TLC
            }
            if maybe_adopt(&mut rng, &mut x, results) {
                nb = 1;
            }
        }
        stats.histories += 1;
        sink.emit(evs);
    }
}

/// Histories for the function-contract properties: the subject is taken through random public calls of
/// every sort ("setup" steps: executed and recorded, not judged by this check - the model re-synchronises
/// on what was observed), and between them the operations the property is about are called on the live,
/// history-made object and judged against the specification (cf "fun"), or its hash stream is recorded
/// (cf "hash").  A change whose effect stays invisible until a *different* operation reads the storage
/// (two cooperating sites) is seen here by the check of the property that owns the reading operation.
pub fn drive_focus_histories(t: &Tier, sink: &mut Sink, ops: &[&str], rops: &[usize], kinds: &[Kind], histories: usize, steps: usize, stats: &mut Stats) {
    let mut rng = Rng::new(t.seed ^ 0xF0C5 ^ ((ops.len() as u64) << 12) ^ (ops[0].len() as u64));
    for h in 0..histories {
        let kind = kinds[h % kinds.len()];
        let cap = kind.fixed_cap().unwrap_or(300);
        let n0 = random_len(&mut rng, cap.min(140));
        let start = random_bits(&mut rng, n0);
        let preps = [Prep::Fresh, Prep::Spare, Prep::Heap, Prep::Pushed, Prep::Shrunk];
        let (mut x, _) = make(kind, &start, *rng.pick(&preps));
        let mut evs = Vec::new();
        let mut nb = 1u8;
        for _ in 0..steps {
            let cur = x.bits();
            // one setup step ...
            let st = gen_step(&mut rng, kind, &cur, Profile::All);
            let pre = observe(&x);
            let (o, py, yd, results) = run_step(&mut x, &st);
            let post = observe(&x);
            evs.push(base_event(&st, nb, "setup", t.dbg, &x, &pre, yd, &post, py, &o));
            stats.execs += 1;
            nb = 0;
            if post.bits.is_none() || o == Out::Panic {
                break;
            }
            if maybe_adopt(&mut rng, &mut x, results) {
                nb = 1;
            }
            // ... then one to three of the property's own operations on the live object
            // (`rop` number i: the history-made subject as the right operand of operation i of the table in exec.rs / Bva.tla)
            let mut dead = false;
            for _ in 0..1 + rng.below(3) {
                // candidates for the CURRENT bits (indices, lengths and capacities in their arguments depend on them)
                let cur = x.bits();
                let mut cands: Vec<Step> = battery(&mut rng, kind, &cur, t.dbg)
                    .into_iter()
                    .filter(|s| ops.contains(&s.op) || (s.op == "rop" && rops.contains(&(s.a.i.unwrap_or(0) % 12))))
                    .collect();
                // ... with random arguments as well (the battery's are fixed)
                for _ in 0..24 {
                    let s = gen_step(&mut rng, kind, &cur, Profile::All);
                    if ops.contains(&s.op) {
                        cands.push(s);
                    }
                }
                if cands.is_empty() {
                    break;
                }
                let st = rng.pick(&cands).clone();
                let pre = observe(&x);
                if st.op == "rop" {
                    // the candidates were made for the length at the start of this round: the left operand
                    // must (still) be able to hold its own bits and, for append / prepend, the result
                    let (zk, extra, i) = (st.a.tk.unwrap(), st.a.n.unwrap_or(0) as usize, st.a.i.unwrap_or(0) % 12);
                    let need = x.len() + extra + if i == 7 || i == 8 { x.len() } else { 0 };
                    if !zk.admits(need) || (i == 11 && x.bits().iter().all(|b| *b == 0)) {
                        continue;
                    }
                }
                if st.op == "hash" || st.op == "hash_slice" {
                    let mut xc = x.clone();
                    let stream = match exec(&mut xc, &Y::None, st.op, "", &Args::default()) {
                        Out::Bytes(s) => s,
                        _ => vec![0xEE],
                    };
                    let id = intern_stream(stream);
                    let mut ev = base_event(&st, nb, "hash", t.dbg, &x, &pre, ydesc_none(), &observe(&xc), vec![], &Out::Unit);
                    ev["h"] = json!(id);
                    evs.push(ev);
                    stats.execs += 1;
                    nb = 0;
                    continue;
                }
                let (o, py, yd, results) = run_step(&mut x, &st);
                let post = observe(&x);
                let mut ev = base_event(&st, nb, "fun", t.dbg, &x, &pre, yd, &post, py, &o);
                ev["pr"] = json!(probes(&x, &o, &results));
                evs.push(ev);
                stats.execs += 1;
                nb = 0;
                if post.bits.is_none() || o == Out::Panic {
                    dead = true;
                    break;
                }
            }
            if dead {
                break;
            }
        }
        stats.histories += 1;
        sink.emit(evs);
    }
}

/// C18, deterministic part: reserve / shrink_to_fit / with_capacity at lengths on and next to every
/// 64-bit boundary and the inline limit, with one word, less than a word and several words to spare.
pub fn drive_c18_targeted(t: &Tier, sink: &mut Sink, stats: &mut Stats) {
    // large requests: with_capacity(c) / reserve(c) must really provide c (no silent cap)
    for kind in [Kind::D, Kind::A] {
        for c in [1000usize, 4096, 4097, 5000, 65536, 100_001, 1 << 20] {
            let mut evs = Vec::new();
            let mut w = AnyBv::fresh(kind, &[]);
            let st = Step::new("with_capacity").a(Args::n(c));
            let pre = observe(&w);
            let (o, py, yd, _) = run_step(&mut w, &st);
            let post = observe(&w);
            evs.push(base_event(&st, 1, "cap", t.dbg, &w, &pre, yd, &post, py, &o));
            let mut x = AnyBv::fresh(kind, &[1, 0, 1]);
            for st in [Step::new("reserve").a(Args::n(c)), Step::new("push").a(Args { bit: Some(1), ..Default::default() }), Step::new("shrink_to_fit")] {
                let nb = (st.op == "reserve") as u8;
                let pre = observe(&x);
                let (o, py, yd, _) = run_step(&mut x, &st);
                let post = observe(&x);
                evs.push(base_event(&st, nb, "cap", t.dbg, &x, &pre, yd, &post, py, &o));
                stats.execs += 1;
            }
            stats.execs += 1;
            stats.histories += 1;
            sink.emit(evs);
        }
    }
    let lens = [0usize, 1, 63, 64, 65, 127, 128, 129, 191, 192, 193, 255, 256, 257];
    let extras = [0usize, 1, 63, 64, 65, 128, 200];
    for kind in [Kind::D, Kind::A] {
        for (li, n) in lens.iter().copied().enumerate() {
            for (ei, extra) in extras.iter().copied().enumerate() {
                if t.quick && (li + ei) % 2 == 1 {
                    continue;
                }
                let start: Bits = (0..n).map(|i| ((i * 7 + n) % 3 != 0) as u8).collect();
                // three ways of obtaining spare capacity, then shrink_to_fit, then growth again
                let recipes: [Vec<Step>; 3] = [
                    vec![Step::new("reserve").a(Args::n(extra)), Step::new("shrink_to_fit"), Step::new("push").a(Args { bit: Some(1), ..Default::default() }),
                         Step::new("pop"), Step::new("shrink_to_fit"), Step::new("reserve").a(Args::n(1))],
                    vec![Step::new("resize").a(Args { n: Some((n + extra) as u128), bit: Some(1), ..Default::default() }), Step::new("truncate").a(Args::n(n)),
                         Step::new("shrink_to_fit"), Step::new("resize").a(Args { n: Some((n + 3) as u128), bit: Some(0), ..Default::default() })],
                    vec![Step::new("push").a(Args { bit: Some(0), ..Default::default() }), Step::new("pop"), Step::new("shrink_to_fit"),
                         Step::new("reserve").a(Args::n(extra)), Step::new("shrink_to_fit")],
                ];
                // the subject starts fresh, or in a storage state left by some history (heap mode with
                // tight or spare storage for the auto type)
                let preps: &[Prep] = if kind == Kind::A { &[Prep::Fresh, Prep::Heap, Prep::Spare, Prep::Shrunk, Prep::Conv(Kind::D), Prep::Masked] } else { &[Prep::Fresh, Prep::Shrunk, Prep::Pushed, Prep::Masked] };
                for (ri, recipe) in recipes.iter().enumerate() {
                  for (pi, prep) in preps.iter().copied().enumerate() {
                    if t.quick && pi > 1 && (pi + ri + li + ei) % 2 == 0 {
                        continue;
                    }
                    let (mut x, okp) = crate::prep::make(kind, &start, prep);
                    if !okp && prep != Prep::Fresh {
                        continue;
                    }
                    let mut evs = Vec::new();
                    let mut nb = 1u8;
                    for st in recipe {
                        let pre = observe(&x);
                        let (o, py, yd, results) = run_step(&mut x, st);
                        let post = observe(&x);
                        let mut ev = base_event(st, nb, "cap", t.dbg, &x, &pre, yd, &post, py, &o);
                        ev["pr"] = json!(probes(&x, &o, &results));
                        if nb == 1 {
                            ev["x"]["p"] = json!(prep.name());
                        }
                        evs.push(ev);
                        stats.execs += 1;
                        nb = 0;
                    }
                    // with_capacity(c): empty, capacity >= c
                    let c = n + extra;
                    let mut w = AnyBv::fresh(kind, &[]);
                    let st = Step::new("with_capacity").a(Args::n(c));
                    let pre = observe(&w);
                    let (o, py, yd, _) = run_step(&mut w, &st);
                    let post = observe(&w);
                    evs.push(base_event(&st, 1, "cap", t.dbg, &w, &pre, yd, &post, py, &o));
                    stats.execs += 1;
                    stats.histories += 1;
                    sink.emit(evs);
                  }
                }
            }
        }
    }
}

/// Hash streams are recorded as small numbers: one table per process, so that the same stream has the
/// same number in every driver of a run (the trace compares numbers across the whole trace).
pub fn intern_stream(stream: Vec<u8>) -> u64 {
    use std::sync::{Mutex, OnceLock};
    static IDS: OnceLock<Mutex<HashMap<Vec<u8>, u64>>> = OnceLock::new();
    let mut m = IDS.get_or_init(|| Mutex::new(HashMap::new())).lock().unwrap();
    let next = m.len() as u64 + 1;
    *m.entry(stream).or_insert(next)
}

#[derive(Default)]
pub struct Stats {
    pub execs: u64,
    pub histories: u64,
    pub agree: u64,
    pub differ: u64,
}

// ------------------------------------------------------------------------------------------------
// C03: the history-made subject against a fresh twin
// ------------------------------------------------------------------------------------------------

/// The observer battery and the derived probes, as calls that can be executed on a clone.
pub fn battery(rng: &mut Rng, kind: Kind, bits: &Bits, dbg: bool) -> Vec<Step> {
    let n = bits.len();
    let cap = kind.fixed_cap().unwrap_or(usize::MAX);
    let room = cap - n;
    let mut b: Vec<Step> = Vec::new();
    for op in ["len", "is_empty", "first", "last", "is_zero", "leading_zeros", "leading_ones", "trailing_zeros", "trailing_ones", "significant_bits", "iter_collect", "new_inner", "clone", "hash", "hash_slice", "pop"] {
        b.push(Step::new(op));
    }
    b.push(Step::new("iter_collect").a(Args { byval: true, ..Default::default() }));
    if n > 0 {
        for i in [0, n - 1, n / 2] {
            b.push(Step::new("get").a(Args { i: Some(i), ..Default::default() }));
        }
    }
    let _ = dbg;
    for e in ['L', 'B'] {
        b.push(Step::new("to_vec").a(Args { e: Some(e), ..Default::default() }));
        b.push(Step::new("write").a(Args { e: Some(e), ..Default::default() }));
    }
    let mk = |base, alt, zero, width| FmtSpec { base, alt, plus: false, zero, width, fill: ' ', align: '-' };
    for s in [mk('d', false, false, None), mk('b', false, false, None), mk('o', false, false, None), mk('x', false, false, None), mk('X', false, false, None), mk('x', true, false, None), mk('b', false, true, Some(8))] {
        if s.base == 'd' && n > 200 {
            continue;
        }
        b.push(Step::new("fmt").a(Args { fmt: Some(s), ..Default::default() }));
    }
    for ty in ALL_INTS {
        b.push(Step::new("to_int").a(Args { ity: Some(ty), n: Some(ty.width() as u128), byval: rng.chance(1, 2), ..Default::default() }));
    }
    for k in ALL_KINDS {
        if rng.chance(1, 3) || k == Kind::D || k == Kind::A {
            b.push(Step { op: "convert", f: "", y: YSpec::Target(k), ykind: None, a: Args { byval: rng.chance(1, 2), ..Default::default() } });
        }
    }
    // comparisons against a fresh vector of the same bits, a zero-extended one, small constants
    let mut longer = bits.clone();
    longer.extend([0, 0, 0]);
    let mut plus1 = bits.clone();
    plus1.push(1);
    for (yk, yb) in [(kind, bits.clone()), (Kind::D, longer), (Kind::A, plus1), (Kind::D, vec![]), (Kind::F8x1, vec![1])] {
        if !yk.admits(yb.len()) {
            continue;
        }
        for op in ["eq", "lt", "ge", "pcmp"] {
            b.push(Step::new(op).yb(yk, yb.clone()));
        }
        if yk == kind {
            b.push(Step::new("cmp").yb(yk, yb.clone()));
            b.push(Step::new("hs_contains").yb(yk, yb.clone()));
        }
    }
    // growth and other operations whose result exposes whatever lies beyond len
    for k in [1usize, 7, 64, 70, 130] {
        if k <= room {
            for fill in [0u8, 1] {
                b.push(Step::new("resize").a(Args { n: Some((n + k) as u128), bit: Some(fill), ..Default::default() }));
            }
            b.push(Step::new("sign_extend").a(Args::n(n + k)));
        }
    }
    if room >= 1 {
        b.push(Step::new("push").a(Args { bit: Some(0), ..Default::default() }));
        b.push(Step::new("push").a(Args { bit: Some(1), ..Default::default() }));
        b.push(Step::new("extend").a(Args { bits: Some(vec![0]), ..Default::default() }));
    }
    if room >= 9 {
        b.push(Step::new("append").yb(Kind::F16x1, vec![0, 0, 0, 0, 0, 0, 0, 0, 1]));
        b.push(Step::new("prepend").yb(Kind::D, vec![1, 0, 0]));
        b.push(Step::new("insert").yb(Kind::A, vec![0, 1]).a(Args { i: Some(n / 2), ..Default::default() }));
    }
    // the subject as the RIGHT operand of operations on a fresh, longer left operand
    for (zi, zk) in [kind, Kind::D, Kind::A].iter().copied().enumerate() {
        for extra in [0usize, 3, 70, 130] {
            if !zk.admits(n + extra) || (zi > 0 && zk == kind) {
                continue;
            }
            for i in 0..12 {
                if i == 11 && (n > 130 || bits.iter().all(|b| *b == 0)) {
                    continue; // div_rem: not by zero, not on long operands
                }
                if (i == 7 || i == 8) && !zk.admits(2 * n + extra) {
                    continue; // append / prepend: the left operand must be able to hold the result
                }
                if !rng.chance(1, 2) && extra != 70 {
                    continue;
                }
                b.push(Step::new("rop").a(Args { tk: Some(zk), n: Some(extra as u128), i: Some(i), ..Default::default() }));
            }
        }
    }
    b.push(Step::new("add").f("rr").yi(IntTy::U8, 0));
    b.push(Step::new("add").f("av").yb(Kind::D, ones(n.min(200))));
    b.push(Step::new("sub").f("ar").yi(IntTy::U64, 1));
    b.push(Step::new("mul").f("rr").yi(IntTy::U8, 1));
    b.push(Step::new("mul").f("rv").yi(IntTy::U16, 3));
    b.push(Step::new("or").f("rr").yi(IntTy::U8, 0));
    b.push(Step::new("xor").f("av").yi(IntTy::U8, 0));
    b.push(Step::new("and").f("rr").yb(Kind::D, ones(n + 3)));
    b.push(Step::new("div").f("rr").yi(IntTy::U8, 1));
    b.push(Step::new("rem").f("rr").yi(IntTy::U8, 7));
    b.push(Step::new("not").f("r"));
    b.push(Step::new("not").f("v"));
    b.push(Step::new("shl").f("rv").a(Args { n: Some(1), ity: Some(IntTy::U32), ..Default::default() }));
    b.push(Step::new("shr").f("av").a(Args { n: Some(1), ity: Some(IntTy::Usize), ..Default::default() }));
    b.push(Step::new("shr").f("rr").a(Args { n: Some(n as u128 / 2), ity: Some(IntTy::U64), ..Default::default() }));
    b.push(Step::new("shl_in").a(Args { bit: Some(0), ..Default::default() }));
    b.push(Step::new("shr_in").a(Args { bit: Some(0), ..Default::default() }));
    b.push(Step::new("rotl").a(Args::n(n.min(1))));
    b.push(Step::new("rotr").a(Args::n(n / 2)));
    b.push(Step::new("copy_range").a(Args { i: Some(0), j: Some(n), ..Default::default() }));
    b.push(Step::new("copy_range").a(Args { i: Some(n / 2), j: Some(n), ..Default::default() }));
    b.push(Step::new("split_off").a(Args { i: Some(n / 2), ..Default::default() }));
    b.push(Step::new("truncate").a(Args::n(n / 2)));
    b.push(Step::new("shrink_to_fit"));
    b.push(Step::new("reserve").a(Args::n(100)));
    b
}

/// run the same call on the subject and on the twin; returns the twin event and whether they agree
pub fn twin_call(t: &Tier, st: &Step, nb: u8, s: &mut AnyBv, tw: &mut AnyBv) -> (Value, bool, Vec<AnyBv>) {
    let pre = observe(s);
    let (o, py, yd, results) = run_step(s, st);
    let post = observe(s);
    let (o2, _py2, _yd2, results2) = run_step(tw, st);
    let post2 = observe(tw);
    let mut ev = base_event(st, nb, "twin", t.dbg, s, &pre, yd, &post, py, &o);
    // derived probes of what the call returned, on both sides
    let pr1 = json!(probes(s, &o, &results));
    let pr2 = json!(probes(tw, &o2, &results2));
    ev["pr"] = pr1.clone();
    ev["tw"] = json!({"pb": post2.bits.clone().unwrap_or_default(), "o": o2.to_json(), "pr": pr2, "m": post2.mode});
    let agree = o.tag() == o2.tag() && (o == Out::Panic || (o == o2 && post.bits == post2.bits && pr1 == pr2));
    (ev, agree, results)
}

pub fn drive_c03(t: &Tier, sink: &mut Sink, stats: &mut Stats) {
    let mut rng = Rng::new(t.seed ^ 0xC03);
    let histories = t.q(300, 2400);
    let steps = t.q(16, 30);
    let sample_agreeing = t.q(2, 4);
    for h in 0..histories {
        let kind = ALL_KINDS[h % ALL_KINDS.len()];
        let cap = kind.fixed_cap().unwrap_or(300);
        let n0 = random_len(&mut rng, cap.min(140));
        let start = random_bits(&mut rng, n0);
        let preps = [Prep::Fresh, Prep::Spare, Prep::Heap, Prep::Pushed, Prep::Shrunk, Prep::Popped, Prep::Masked, Prep::Reserved];
        let (mut s, _) = make(kind, &start, *rng.pick(&preps));
        let mut evs = Vec::new();
        let mut nb = 1u8;
        for _ in 0..steps {
            let cur = match std::panic::catch_unwind(std::panic::AssertUnwindSafe(|| s.bits())) {
                Ok(b) => b,
                Err(_) => break,
            };
            // 1. the next operation of the history, on the subject and on a fresh twin
            let st = gen_step(&mut rng, kind, &cur, Profile::All);
            let mut tw = AnyBv::fresh(kind, &cur);
            let (mut ev, agree, results) = twin_call(t, &st, nb, &mut s, &mut tw);
            stats.execs += 2;
            nb = 0;
            if agree { stats.agree += 1 } else { stats.differ += 1 }
            let after = match observe(&s).bits {
                Some(b) => b,
                None => {
                    evs.push(ev);
                    break;
                }
            };
            // 2. the battery on clones of the new subject and of a fresh vector with the same bits
            let fresh = AnyBv::fresh(kind, &after);
            let mut agreeing = Vec::new();
            let mut differing = Vec::new();
            let mut n_agree = 0u64;
            for p in battery(&mut rng, kind, &after, t.dbg) {
                let mut sc = s.clone();
                let mut tc = fresh.clone();
                let (mut pev, ok, _) = twin_call(t, &p, 1, &mut sc, &mut tc);
                pev["r"] = json!("probe");
                stats.execs += 2;
                if ok {
                    n_agree += 1;
                    stats.agree += 1;
                    agreeing.push(pev);
                } else {
                    stats.differ += 1;
                    differing.push(pev);
                }
            }
            ev["cov"] = json!(1 + n_agree);
            evs.push(ev);
            evs.extend(differing);
            for _ in 0..sample_agreeing.min(agreeing.len()) {
                let i = rng.below(agreeing.len());
                evs.push(agreeing.swap_remove(i));
            }
            if maybe_adopt(&mut rng, &mut s, results) {
                nb = 1;
            }
        }
        stats.histories += 1;
        sink.emit(evs);
    }
}

// ------------------------------------------------------------------------------------------------
// C10: hashing
// ------------------------------------------------------------------------------------------------

pub fn drive_c10(t: &Tier, sink: &mut Sink, stats: &mut Stats) {
    let mut rng = Rng::new(t.seed ^ 0xC10);
    let mut values: Vec<Bits> = Vec::new();
    for n in 0..t.q(5, 7) {
        values.extend(all_of_len(n).filter(|v| v.last() != Some(&0)));
    }
    for n in [8usize, 9, 63, 64, 65, 120, 127, 128, 129, 190] {
        for _ in 0..t.q(2, 20) {
            let mut v = random_bits(&mut rng, n);
            if n > 0 {
                v[n - 1] = 1;
            }
            values.push(v);
        }
    }
    // values with all-zero storage words below a non-zero one (word-skipping feeds), of every word size
    for w in [8usize, 16, 32, 64, 128] {
        for extra in [1usize, 5, w.min(40)] {
            let mut v = zeros(w + extra);
            v[w] = 1;
            v[w + extra - 1] = 1;
            values.push(v);
            let mut v2 = zeros(2 * w + extra);
            v2[2 * w + extra - 1] = 1;
            values.push(v2);
        }
    }
    values.push(vec![]);
    values.sort();
    values.dedup();
    for kind in ALL_KINDS {
        let cap = kind.fixed_cap().unwrap_or(320);
        let mut evs = Vec::new();
        for v in &values {
            if v.len() > cap {
                continue;
            }
            // the same value at several lengths, preparations and storage modes
            let mut pads: Vec<usize> = vec![0, 1, 2, 3, 7, 8, 9, 60, 64, 65, 70, 128, 130];
            pads.retain(|p| v.len() + p <= cap);
            // always: the exact length, one more bit, one more storage word; a sample of the rest
            let pads = if t.quick {
                let mut ps: Vec<usize> = pads.iter().copied().filter(|p| [0, 1, 64].contains(p)).collect();
                ps.extend(sample_vec(&mut rng, &pads, 3));
                ps.sort();
                ps.dedup();
                ps
            } else {
                pads
            };
            for pad in pads {
                let mut b = v.clone();
                b.extend(std::iter::repeat(0).take(pad));
                let preps: &[Prep] = match kind {
                    Kind::A => &[Prep::Fresh, Prep::Heap, Prep::Summed, Prep::Spare, Prep::Shrunk, Prep::Ored(Kind::D)],
                    Kind::D => &[Prep::Fresh, Prep::Spare, Prep::Summed, Prep::Shrunk, Prep::Reserved, Prep::Ored(Kind::A)],
                    _ => &[Prep::Fresh, Prep::Summed, Prep::Shrunk, Prep::Pushed, Prep::Ored(Kind::D), Prep::Ored(Kind::A), Prep::Ored(Kind::F16x4)],
                };
                for prep in preps.iter().copied() {
                    let (x, ok) = make(kind, &b, prep);
                    let pre = observe(&x);
                    // as a key itself, and as an element of a hashed slice (Hash::hash_slice)
                    for hop in ["hash", "hash_slice"] {
                        let mut xc = x.clone();
                        let stream = match exec(&mut xc, &Y::None, hop, "", &Args::default()) {
                            Out::Bytes(s) => s,
                            _ => vec![0xEE],
                        };
                        let id = intern_stream(stream);
                        let post = observe(&xc);
                        let st = Step::new(hop);
                        let mut ev = base_event(&st, 1, "hash", t.dbg, &x, &pre, ydesc_none(), &post, vec![], &Out::Unit);
                        ev["h"] = json!(id);
                        ev["x"]["p"] = json!(if ok { prep.name() } else { "fresh".into() });
                        evs.push(ev);
                        stats.execs += 1;
                    }
                    // HashSet membership: a set holding this vector finds an equal one of another length
                    if v.len() + 5 <= cap && rng.chance(1, 3) {
                        let mut other = v.clone();
                        other.extend([0, 0, 0, 0, 0]);
                        let st = Step::new("hs_contains").yb(kind, other);
                        let mut xs = x.clone();
                        let (o, py, yd, _) = run_step(&mut xs, &st);
                        let post = observe(&xs);
                        evs.push(base_event(&st, 1, "fun", t.dbg, &x, &pre, yd, &post, py, &o));
                        stats.execs += 1;
                    }
                }
            }
        }
        sink.emit(evs);
    }
}

fn sample_vec<T: Clone>(rng: &mut Rng, xs: &[T], k: usize) -> Vec<T> {
    let mut v = xs.to_vec();
    while v.len() > k {
        let i = rng.below(v.len());
        v.remove(i);
    }
    v
}

// ------------------------------------------------------------------------------------------------
// C17: iterator sessions
// ------------------------------------------------------------------------------------------------

pub fn gen_session(rng: &mut Rng, n: usize, calls: usize) -> Vec<(String, u128)> {
    let mut s: Vec<(String, u128)> = vec![("it_new".into(), 0)];
    let mut revs = 0;
    let um = usize::MAX as u128;
    for _ in 0..calls {
        let k: u128 = match rng.below(9) {
            0 => 0,
            1 => 1,
            2 => 2,
            3 => rng.below(n + 2) as u128,
            4 => n as u128,
            5 => um,
            6 => um - 1,
            7 => um - rng.below(n + 2) as u128,
            _ => rng.below(4) as u128,
        };
        match rng.below(12) {
            0 | 1 | 2 => s.push(("it_next".into(), 0)),
            3 | 4 => s.push(("it_next_back".into(), 0)),
            5 | 6 => s.push(("it_nth".into(), k)),
            7 | 8 => s.push(("it_nth_back".into(), k)),
            9 => s.push(("it_size_hint".into(), 0)),
            10 => {
                if revs < 4 {
                    revs += 1;
                    s.push(("it_rev".into(), 0));
                } else {
                    s.push(("it_size_hint".into(), 0));
                }
            }
            _ => {
                // count / last consume the iterator: they end the session
                s.push((if rng.chance(1, 2) { "it_count" } else { "it_last" }.into(), 0));
                return s;
            }
        }
    }
    s.push(("it_end".into(), 0));
    s
}

pub fn session_events(t: &Tier, x: &AnyBv, session: &[(String, u128)], outs: &[Out], cov: u64) -> Vec<Value> {
    let st = observe(x);
    let mut evs = Vec::new();
    for (i, ((op, k), o)) in session.iter().zip(outs.iter()).enumerate() {
        let a = Args { n: Some(*k), ..Default::default() };
        let mut ev = json!({
            "op": op, "f": "", "r": "s", "nb": (i == 0) as u8, "cf": "fun", "dbg": t.dbg as u8,
            "x": xdesc(x, &st, "fresh"), "y": ydesc_none(), "a": a.to_json(),
            "px": pdesc(&observe(x)), "py": [], "o": o.to_json(),
        });
        if i == 0 {
            ev["cov"] = json!(cov);
        }
        evs.push(ev);
    }
    evs
}

pub fn drive_c17(t: &Tier, sink: &mut Sink, stats: &mut Stats) {
    let mut rng = Rng::new(t.seed ^ 0xC17);
    let sessions = t.q(500, 40000);
    for _ in 0..sessions {
        let n = match rng.below(5) {
            0 => rng.below(4),
            1 => rng.below(12),
            2 => 60 + rng.below(10),
            3 => 125 + rng.below(8),
            _ => rng.below(40),
        };
        let bits = random_bits(&mut rng, n);
        let ncalls = 3 + rng.below(t.q(8, 14));
        let session = gen_session(&mut rng, n, ncalls);
        let via = rng.chance(1, 2);
        // run on every kind that admits the vector; one event sequence per distinct result list
        let mut groups: Vec<(Vec<Out>, AnyBv, u64)> = Vec::new();
        for k in ALL_KINDS {
            if !k.admits(n) {
                continue;
            }
            let (x, _) = make(k, &bits, *rng.pick(&[Prep::Fresh, Prep::Spare, Prep::Heap]));
            let outs = iter_session(&x, &session, via);
            stats.execs += session.len() as u64;
            // iterating never modifies the vector
            let same = x.bits() == bits;
            if let Some(g) = groups.iter_mut().find(|g| g.0 == outs) {
                if same {
                    g.2 += 1;
                    continue;
                }
            }
            groups.push((outs, x, 1));
        }
        for (outs, x, cov) in groups {
            sink.emit(session_events(t, &x, &session, &outs, cov));
        }
        stats.histories += 1;
    }
}

// ------------------------------------------------------------------------------------------------
// C19: overflow and bad arguments are signalled
// ------------------------------------------------------------------------------------------------

pub fn drive_c19(t: &Tier, m: &mut Matrix, sink: &mut Sink) {
    let mut rng = Rng::new(t.seed ^ 0xC19);
    for kind in ALL_KINDS.iter().copied().filter(|k| k.is_fixed()) {
        let cap = kind.fixed_cap().unwrap();
        let one = |c: Case| c.xk(vec![kind]).capsens().cf("sig");
        // constructors at and beyond the capacity
        for n in [cap - 1, cap, cap + 1, cap + 8, cap + 64, 2 * cap + 1] {
            sink.emit(m.run(&one(Case::new("zeros", vec![]).a(Args::n(n)))));
            sink.emit(m.run(&one(Case::new("ones", vec![]).a(Args::n(n)))));
            sink.emit(m.run(&one(Case::new("repeat", vec![]).a(Args { n: Some(n as u128), bit: Some(1), ..Default::default() }))));
            let s: Vec<String> = (0..n).map(|i| ((i % 3 == 0) as u8).to_string()).collect();
            sink.emit(m.run(&one(Case::new("from_binary", vec![]).a(Args { chars: Some(s), ..Default::default() }))));
            sink.emit(m.run(&one(Case::new("collect", vec![]).a(Args { bits: Some(ones(n)), ..Default::default() }))));
            for e in ['L', 'B'] {
                let nb = (n + 7) / 8;
                sink.emit(m.run(&one(Case::new("read", vec![]).a(Args { n: Some(n as u128), e: Some(e), bytes: Some(vec![0xFF; nb + 1]), ..Default::default() }))));
            }
        }
        // absurd lengths: any arithmetic on the length before the capacity test overflows
        for n in [usize::MAX, usize::MAX - 1, usize::MAX - 6, usize::MAX - 7, usize::MAX - 8, usize::MAX / 2 + 1, usize::MAX / 8 + 1, (1usize << 61) + 1, 1usize << 32] {
            for e in ['L', 'B'] {
                sink.emit(m.run(&one(Case::new("read", vec![]).a(Args { n: Some(n as u128), e: Some(e), bytes: Some(vec![0xFF; 5]), ..Default::default() }))));
            }
            sink.emit(m.run(&one(Case::new("zeros", vec![]).a(Args::n(n)))));
            sink.emit(m.run(&one(Case::new("ones", vec![]).a(Args::n(n)))));
            sink.emit(m.run(&one(Case::new("repeat", vec![]).a(Args { n: Some(n as u128), bit: Some(0), ..Default::default() }))));
        }
        for nh in [cap / 4 - 1, cap / 4, cap / 4 + 1, cap / 2] {
            let s: Vec<String> = (0..nh).map(|_| "f".to_string()).collect();
            sink.emit(m.run(&one(Case::new("from_hex", vec![]).a(Args { chars: Some(s), ..Default::default() }))));
        }
        for nb in [cap / 8 - 1, cap / 8, cap / 8 + 1, cap / 4] {
            for e in ['L', 'B'] {
                sink.emit(m.run(&one(Case::new("from_bytes", vec![]).a(Args { bytes: Some(vec![0xA5; nb]), e: Some(e), ..Default::default() }))));
            }
        }
        for ty in ALL_INTS {
            for v in [0u128, 1, ty.max(), ty.max() >> 1, 1 << (cap.min(ty.width()) - 1), if cap < 128 { 1u128 << cap } else { 0 }, if cap < 128 { (1u128 << cap) - 1 } else { u128::MAX }] {
                if v <= ty.max() {
                    sink.emit(m.run(&one(Case::new("from_int", vec![]).y(YSpec::Int(ty, v)))));
                }
            }
            for count in [cap / ty.width(), cap / ty.width() + 1] {
                let els: Vec<Bits> = (0..count).map(|_| int_bits(ty.max(), ty.width())).collect();
                sink.emit(m.run(&one(Case::new("from_slice", vec![]).a(Args { els: Some(els), ity: Some(ty), ..Default::default() }))));
            }
        }
        // conversions from longer vectors of the other implementations
        // growth of an EMPTY (and of a nearly empty) fixed vector by an operand that alone exceeds the capacity
        for n in [0usize, 1] {
            for yl in [cap + 1, cap + 8, 2 * cap, cap] {
                let y = ones(yl);
                let x = ones(n);
                sink.emit(m.run(&one(Case::new("append", x.clone()).y(YSpec::Bits(y.clone())))));
                sink.emit(m.run(&one(Case::new("prepend", x.clone()).y(YSpec::Bits(y.clone())))));
                sink.emit(m.run(&one(Case::new("insert", x.clone()).y(YSpec::Bits(y.clone())).a(Args { i: Some(0), ..Default::default() }))));
                sink.emit(m.run(&one(Case::new("extend", x.clone()).a(Args { bits: Some(y.clone()), ..Default::default() }))));
                sink.emit(m.run(&one(Case::new("resize", x.clone()).a(Args { n: Some(yl as u128), bit: Some(0), ..Default::default() }))));
            }
        }
        for src in [Kind::D, Kind::A, Kind::F128x4, Kind::F8x3, Kind::F16x4, Kind::Fux4] {
            for n in [cap - 1, cap, cap + 1, cap + 70] {
                if src.admits(n) {
                    for byval in [false, true] {
                        for val in [ones(n), zeros(n), { let mut v = zeros(n); if n > 0 { v[0] = 1; } v }] {
                            let c = Case::new("convert", val).y(YSpec::Target(kind)).a(Args { byval, ..Default::default() }).xk(vec![src]).cf("sig");
                            sink.emit(m.run(&c));
                        }
                    }
                }
            }
        }
        // growing operations from lengths at and around the capacity
        for n in [cap.saturating_sub(2), cap - 1, cap] {
            let x = if rng.chance(1, 2) { ones(n) } else { random_bits(&mut rng, n) };
            for b in [0u8, 1] {
                sink.emit(m.run(&one(Case::new("push", x.clone()).a(Args { bit: Some(b), ..Default::default() }))));
            }
            for nl in [cap, cap + 1, cap + 4, cap + 64, cap + 200] {
                sink.emit(m.run(&one(Case::new("resize", x.clone()).a(Args { n: Some(nl as u128), bit: Some(1), ..Default::default() }))));
                sink.emit(m.run(&one(Case::new("resize", x.clone()).a(Args { n: Some(nl as u128), bit: Some(0), ..Default::default() }))));
                sink.emit(m.run(&one(Case::new("sign_extend", x.clone()).a(Args::n(nl)))));
            }
            for yl in [0usize, 1, 2, 3, 9, 70] {
                let y = ones(yl);
                sink.emit(m.run(&one(Case::new("append", x.clone()).y(YSpec::Bits(y.clone())))));
                sink.emit(m.run(&one(Case::new("prepend", x.clone()).y(YSpec::Bits(y.clone())))));
                sink.emit(m.run(&one(Case::new("insert", x.clone()).y(YSpec::Bits(y.clone())).a(Args { i: Some(n / 2), ..Default::default() }))));
                sink.emit(m.run(&one(Case::new("extend", x.clone()).a(Args { bits: Some(y.clone()), ..Default::default() }))));
                // the iterator under-reports (lower bound 0, or a loose honest hint): the overflow must still be signalled
                for lie in [Some(0usize), Some(LOOSE_UPPER + 5), Some(LOOSE_BOTH + 2)] {
                    sink.emit(m.run(&one(Case::new("extend", x.clone()).a(Args { bits: Some(y.clone()), lie, ..Default::default() }))));
                }
            }
        }
        // out-of-range indices panic when debug assertions are compiled in
        if t.dbg {
            for n in [0usize, 1, cap / 2, cap - 1, cap] {
                let x = random_bits(&mut rng, n);
                for i in [n, n + 1, n + 7, cap, cap + 1, usize::MAX / 2] {
                    if i >= n && i < cap {
                        sink.emit(m.run(&one(Case::new("get", x.clone()).a(Args { i: Some(i), ..Default::default() }))));
                        sink.emit(m.run(&one(Case::new("set", x.clone()).a(Args { i: Some(i), bit: Some(1), ..Default::default() }))));
                    }
                    if i > n && i <= cap {
                        sink.emit(m.run(&one(Case::new("copy_range", x.clone()).a(Args { i: Some(0), j: Some(i), ..Default::default() }))));
                        sink.emit(m.run(&one(Case::new("split_off", x.clone()).a(Args { i: Some(i), ..Default::default() }))));
                    }
                }
            }
        }
    }
    // beyond the listed properties: Bvd::new(data, length) refuses a length the data cannot hold
    for words in [0usize, 1, 2, 3] {
        for n in [0usize, 1, 63, 64, 65, 128, 129, 192, 193, 300] {
            let c = Case::new("bvd_new", vec![]).a(Args { n: Some(n as u128), i: Some(words), ..Default::default() }).xk(vec![Kind::D]).cf("sig");
            sink.emit(m.run(&c));
        }
    }
    // the growable kinds under debug assertions: out-of-range indices within the allocation
    if t.dbg {
        for kind in [Kind::D, Kind::A] {
            for n in [0usize, 1, 5, 63, 64, 100, 129, 200] {
                let x = random_bits(&mut rng, n);
                let lim = if kind == Kind::A { 128 } else { 64 * ((n + 63) / 64) };
                // copy_range / split_off beyond the length (the documented panic is a debug assertion
                // in each implementation's copy_range; every storage mode of the auto type goes through one)
                for i in [n + 1, n + 7, n + 64, n + 130, n + 200] {
                    let one = |c: Case| c.xk(vec![kind]).cf("sig");
                    sink.emit(m.run(&one(Case::new("copy_range", x.clone()).a(Args { i: Some(0), j: Some(i), ..Default::default() }))));
                    sink.emit(m.run(&one(Case::new("copy_range", x.clone()).a(Args { i: Some(n / 2), j: Some(i), ..Default::default() }))));
                    sink.emit(m.run(&one(Case::new("copy_range", x.clone()).a(Args { i: Some(i), j: Some(i + 5), ..Default::default() }))));
                    sink.emit(m.run(&one(Case::new("split_off", x.clone()).a(Args { i: Some(i), ..Default::default() }))));
                }
                for i in [n, n + 1, lim.saturating_sub(1)] {
                    if i >= n && i < lim {
                        let one = |c: Case| c.xk(vec![kind]).cf("sig");
                        sink.emit(m.run(&one(Case::new("get", x.clone()).a(Args { i: Some(i), ..Default::default() }))));
                        sink.emit(m.run(&one(Case::new("set", x.clone()).a(Args { i: Some(i), bit: Some(1), ..Default::default() }))));
                    }
                }
            }
        }
    }
}

// ------------------------------------------------------------------------------------------------
// C20: all operator forms side by side
// ------------------------------------------------------------------------------------------------

pub fn forms_event(t: &Tier, op: &'static str, kx: Kind, xb: &Bits, y: &YSpec, ky: Option<Kind>, a: &Args, forms: &[&'static str]) -> (Value, String) {
    forms_event_prep(t, op, kx, xb, y, ky, a, forms, Prep::Fresh, Prep::Fresh)
}

/// the same with the operands produced by the given preparations (spare capacity, heap mode of the auto type, ...)
pub fn forms_event_prep(t: &Tier, op: &'static str, kx: Kind, xb: &Bits, y: &YSpec, ky: Option<Kind>, a: &Args, forms: &[&'static str], px: Prep, py: Prep) -> (Value, String) {
    let mut fs = Vec::new();
    let (yv0, mut yd) = Step { op, f: "", y: y.clone(), ykind: ky, a: a.clone() }.operand();
    let yv0 = match (&yv0, y) {
        (Y::Vec(_), YSpec::Bits(b)) => {
            let (v, ok) = make(ky.unwrap(), b, py);
            yd = ydesc_vec(&v, &if ok { py.name() } else { "fresh".into() });
            Y::Vec(v)
        }
        _ => yv0,
    };
    let (x0, okx) = make(kx, xb, px);
    let st0 = observe(&x0);
    let px_name = if okx { px.name() } else { "fresh".to_string() };
    for f in forms {
        let mut x = x0.clone();
        let preclone = x.clone();
        let yv = yv0.clone();
        let (res, xs): (Value, Bits) = if let Some(tk) = f.strip_prefix("iv:") {
            // the native integer replaced by a vector built from it
            let tk = Kind::from_name(tk).unwrap();
            let (t_, v_) = match y { YSpec::Int(t_, v_) => (*t_, *v_), _ => unreachable!() };
            let mut yb = AnyBv::fresh(tk, &[]);
            let made = exec(&mut yb, &Y::Int(t_, v_), "from_int", "", &Args { byval: true, ..Default::default() });
            if made != Out::Unit {
                continue;
            }
            let o = exec(&mut x, &Y::Vec(yb), op, "rr", a);
            (o.to_json(), x.bits())
        } else {
            let o = exec(&mut x, &yv, op, f, a);
            let assign = *f == "av" || *f == "ar";
            if assign {
                // result is the subject afterwards; the clone taken before must be unchanged
                let r = if o == Out::Unit { Out::Vec(x.bits()) } else { o };
                (r.to_json(), preclone.bits())
            } else {
                (o.to_json(), x.bits())
            }
        };
        fs.push(json!({"f": f, "res": res, "xs": xs, "ys": yv.bits()}));
    }
    let key = json!(fs.iter().map(|f| json!([f["res"], f["xs"], f["ys"]])).collect::<Vec<_>>()).to_string();
    let ev = json!({
        "op": op, "f": "*", "r": "s", "nb": 1, "cf": "forms", "dbg": t.dbg as u8,
        "x": xdesc(&x0, &st0, &px_name), "y": yd, "a": a.to_json(),
        "px": pdesc(&st0), "py": yv0.bits(), "o": Out::Unit.to_json(), "forms": fs,
    });
    (ev, key)
}

/// One operator with a native integer right operand on every kind that admits the subject: the six forms,
/// and the integer replaced by a vector built from it in every kind that can hold the integer type.
fn c20_int_case(t: &Tier, op: &'static str, x: &Bits, ty: IntTy, v: u128, rot: usize, stats: &mut Stats) -> Vec<Value> {
    let mut groups: Vec<(String, Value, u64)> = Vec::new();
    for kx in ALL_KINDS.iter().copied().filter(|k| k.admits(x.len())) {
        // (kinds too small for the integer are skipped by forms_event_prep)
        const IV: [&str; 17] = ["iv:D", "iv:A", "iv:F128x1", "iv:F64x4", "iv:F128x4", "iv:F64x2", "iv:Fux4", "iv:F32x4", "iv:F16x4", "iv:F8x4",
                                "iv:F64x1", "iv:Fux1", "iv:F32x1", "iv:F16x1", "iv:F8x1", "iv:F8x2", "iv:F8x3"];
        let mut forms: Vec<&'static str> = vec!["vv", "vr", "rv", "rr", "av", "ar"];
        forms.extend(IV.iter().copied().filter(|f| Kind::from_name(&f[3..]).map(|k| k.admits(ty.width())).unwrap_or(false)));
        let preps = [Prep::Fresh, Prep::Heap, Prep::Spare, Prep::Shrunk];
        let (ev, key) = forms_event_prep(t, op, kx, x, &YSpec::Int(ty, v), None, &Args::default(), &forms, preps[rot % preps.len()], Prep::Fresh);
        stats.execs += forms.len() as u64;
        if let Some(g) = groups.iter_mut().find(|g| g.0 == key) {
            g.2 += 1;
        } else {
            groups.push((key, ev, 1));
        }
    }
    groups.into_iter().map(|(_, mut e, n)| { e["cov"] = json!(n); e }).collect()
}

pub fn drive_c20(t: &Tier, sink: &mut Sink, stats: &mut Stats) {
    let mut rng = Rng::new(t.seed ^ 0xC20);
    let xs = pool(t, &mut rng, t.q(129, 257), t.quick, t.q(1, 5));
    let ops: [&'static str; 8] = ["add", "sub", "mul", "div", "rem", "and", "or", "xor"];
    let mut rot = 0usize;
    for x in &xs {
        for op in ops {
            if matches!(op, "mul" | "div" | "rem") && x.len() > t.q(66, 130) {
                continue;
            }
            rot += 1;
            let is_div = matches!(op, "div" | "rem");
            // vector operand: a rotating subset of subject kinds x operand kinds, identical outcomes folded
            let y = operand_for(&mut rng, x.len(), 200, is_div);
            if !(is_div && y.iter().all(|b| *b == 0)) {
                let mut groups: Vec<(String, Value, u64)> = Vec::new();
                let xk: Vec<Kind> = ALL_KINDS.iter().copied().filter(|k| k.admits(x.len())).collect();
                let yk: Vec<Kind> = ALL_KINDS.iter().copied().filter(|k| k.admits(y.len())).collect();
                for (i, kx) in xk.iter().enumerate() {
                    for j in 0..t.q(2, 6) {
                        let ky = yk[(rot + i * 3 + j * 5) % yk.len()];
                        let preps = [Prep::Fresh, Prep::Heap, Prep::Spare, Prep::Shrunk, Prep::Fresh, Prep::Reserved, Prep::Summed];
                        let (ppx, ppy) = (preps[(rot + i) % preps.len()], preps[(rot / 3 + j + i) % preps.len()]);
                        let (ev, key) = forms_event_prep(t, op, *kx, x, &YSpec::Bits(y.clone()), Some(ky), &Args::default(), &FORMS6, ppx, ppy);
                        stats.execs += 6;
                        if let Some(g) = groups.iter_mut().find(|g| g.0 == key) {
                            g.2 += 1;
                        } else {
                            groups.push((key, ev, 1));
                        }
                    }
                }
                sink.emit(groups.into_iter().map(|(_, mut e, n)| { e["cov"] = json!(n); e }).collect());
            }
            // native integer operand, also against vectors built from the integer
            let ty = ALL_INTS[rot % 6];
            let lat = int_lattice(ty.width());
            let mut v = if rng.chance(1, 2) { *rng.pick(&lat) } else { rng.u128() & ty.max() };
            if is_div && v == 0 {
                v = 5;
            }
            sink.emit(c20_int_case(t, op, x, ty, v, rot, stats));
        }
        // shifts
        for op in ["shl", "shr"] {
            rot += 1;
            let ty = ALL_INTS[rot % 6];
            let ks = shift_amounts(x.len(), ty);
            let k = *rng.pick(&ks);
            let a = Args { n: Some(k), ity: Some(ty), ..Default::default() };
            let mut groups: Vec<(String, Value, u64)> = Vec::new();
            for kx in ALL_KINDS.iter().copied().filter(|k| k.admits(x.len())) {
                let preps = [Prep::Fresh, Prep::Heap, Prep::Spare, Prep::Shrunk];
                let (ev, key) = forms_event_prep(t, op, kx, x, &YSpec::None, None, &a, &FORMS6, preps[rot % preps.len()], Prep::Fresh);
                stats.execs += 6;
                if let Some(g) = groups.iter_mut().find(|g| g.0 == key) {
                    g.2 += 1;
                } else {
                    groups.push((key, ev, 1));
                }
            }
            sink.emit(groups.into_iter().map(|(_, mut e, n)| { e["cov"] = json!(n); e }).collect());
        }
        rot += 1;
        let mut groups: Vec<(String, Value, u64)> = Vec::new();
        for kx in ALL_KINDS.iter().copied().filter(|k| k.admits(x.len())) {
            let (ev, key) = forms_event(t, "not", kx, x, &YSpec::None, None, &Args::default(), &["v", "r"]);
            stats.execs += 2;
            if let Some(g) = groups.iter_mut().find(|g| g.0 == key) {
                g.2 += 1;
            } else {
                groups.push((key, ev, 1));
            }
        }
        sink.emit(groups.into_iter().map(|(_, mut e, n)| { e["cov"] = json!(n); e }).collect());
    }
    // saturated integer operands (all ones, all ones but one, top bit only) of every type against subjects
    // shorter than, as long as and longer than the integer, whose low bit makes a carry / borrow run through
    // the operand's all-ones words
    for (ti, ty) in ALL_INTS.iter().copied().enumerate() {
        let w = ty.width();
        for (vi, v) in [ty.max(), ty.max() - 1, 1u128 << (w - 1), ty.max() >> 1].iter().copied().enumerate() {
            for n in [w / 2, w, w + 1, w + 64, 192, 200] {
                for xv in 0..3 {
                    if t.quick && (ti + vi + n + xv) % 3 != 0 {
                        continue;
                    }
                    let x: Bits = match xv {
                        0 => { let mut b = zeros(n); b[0] = 1; b }
                        1 => ones(n),
                        _ => random_bits_uniform(&mut rng, n),
                    };
                    for op in ops {
                        if matches!(op, "mul" | "div" | "rem") && n > t.q(66, 130) {
                            continue;
                        }
                        rot += 1;
                        sink.emit(c20_int_case(t, op, &x, ty, v, rot, stats));
                    }
                }
            }
        }
    }
}
