//! Watchdog: a call of the code under test that does not return is reported (exit code 3 and a
//! HANG line naming the case being executed) instead of blocking the check for ever.

use std::sync::atomic::{AtomicU64, Ordering};
use std::sync::Mutex;

static TICKS: AtomicU64 = AtomicU64::new(0);
static CURRENT: Mutex<String> = Mutex::new(String::new());

pub fn tick() {
    TICKS.fetch_add(1, Ordering::Relaxed);
}

static CURRENT_FILE: Mutex<Option<std::fs::File>> = Mutex::new(None);

/// VERIF_CURRENT_FILE=<path>: the case being executed is also written to that file, so that a
/// process killed by the code under test (abort on a huge allocation, stack overflow) can still be
/// attributed to the call that killed it.
pub fn init_current_file() {
    if let Ok(p) = std::env::var("VERIF_CURRENT_FILE") {
        if let Ok(f) = std::fs::File::create(p) {
            *CURRENT_FILE.lock().unwrap() = Some(f);
        }
    }
}

pub fn set_current(desc: String) {
    if let Ok(mut g) = CURRENT_FILE.lock() {
        if let Some(f) = g.as_mut() {
            use std::io::{Seek, Write};
            let _ = f.set_len(0);
            let _ = f.seek(std::io::SeekFrom::Start(0));
            let _ = f.write_all(desc.as_bytes());
        }
    }
    if let Ok(mut c) = CURRENT.lock() {
        *c = desc;
    }
    tick();
}

pub fn start_watchdog(limit_secs: u64) {
    std::thread::spawn(move || {
        let mut last = TICKS.load(Ordering::Relaxed);
        let mut idle = 0u64;
        loop {
            std::thread::sleep(std::time::Duration::from_secs(2));
            let now = TICKS.load(Ordering::Relaxed);
            if now == last {
                idle += 2;
                if idle >= limit_secs {
                    let cur = CURRENT.lock().map(|c| c.clone()).unwrap_or_default();
                    println!("{}", serde_json::json!({"k": "HANG", "secs": idle, "case": serde_json::from_str::<serde_json::Value>(&cur).unwrap_or(serde_json::Value::String(cur))}));
                    std::process::exit(3);
                }
            } else {
                idle = 0;
                last = now;
            }
        }
    });
}
