//! Watchdog: a call of the code under test that does not return is reported (exit code 3 and a
//! HANG line naming the case being executed) instead of blocking the check for ever.

use std::sync::atomic::{AtomicU64, Ordering};
use std::sync::Mutex;

static TICKS: AtomicU64 = AtomicU64::new(0);
static CURRENT: Mutex<String> = Mutex::new(String::new());

pub fn tick() {
    TICKS.fetch_add(1, Ordering::Relaxed);
}

pub fn set_current(desc: String) {
    if let Ok(mut c) = CURRENT.lock() {
        *c = desc;
    }
    tick();
}

pub fn start_watchdog(limit_secs: u64) {
    std::thread::spawn(move || {
        let mut last = TICKS.load(Ordering::Relaxed);
        let mut idle = 0u64;
        loop {
            std::thread::sleep(std::time::Duration::from_secs(2));
            let now = TICKS.load(Ordering::Relaxed);
            if now == last {
                idle += 2;
                if idle >= limit_secs {
                    let cur = CURRENT.lock().map(|c| c.clone()).unwrap_or_default();
                    println!("{}", serde_json::json!({"k": "HANG", "secs": idle, "case": serde_json::from_str::<serde_json::Value>(&cur).unwrap_or(serde_json::Value::String(cur))}));
                    std::process::exit(3);
                }
            } else {
                idle = 0;
                last = now;
            }
        }
    });
}
