//! Returned values and arguments, with their JSON encoding (shared with the TLA+ side).

use crate::kinds::{Bits, IntTy, Kind};
use serde_json::{json, Map, Value};

pub const BIG: u128 = 1 << 30;

#[derive(Clone, PartialEq, Eq, Hash, Debug)]
pub enum Out {
    Unit,
    Vec(Bits),
    Bit(u8),
    None,
    Num(i64),
    Bool(bool),
    Ord(i8),
    Bytes(Vec<u8>),
    Str(Vec<String>),
    Pair(Bits, Bits),
    ErrCap,
    ErrFmt(usize),
    ErrIo,
    Panic,
}

fn o(t: &str, b: Value, v: i64, q: Value, s: Value) -> Value {
    json!({"t": t, "b": b, "v": v, "q": q, "s": s})
}

impl Out {
    pub fn to_json(&self) -> Value {
        let e = || json!([]);
        match self {
            Out::Unit => o("unit", e(), 0, e(), e()),
            Out::Vec(b) => o("vec", json!(b), 0, e(), e()),
            Out::Bit(v) => o("bit", e(), *v as i64, e(), e()),
            Out::None => o("none", e(), 0, e(), e()),
            Out::Num(v) => o("num", e(), *v, e(), e()),
            Out::Bool(p) => o("bool", e(), *p as i64, e(), e()),
            Out::Ord(v) => o("ord", e(), *v as i64, e(), e()),
            Out::Bytes(b) => o("bytes", json!(b), 0, e(), e()),
            Out::Str(s) => o("str", e(), 0, e(), json!(s)),
            Out::Pair(b, q) => o("pair", json!(b), 0, json!(q), e()),
            Out::ErrCap => o("err", e(), 0, e(), json!(["cap"])),
            Out::ErrFmt(i) => o("err", e(), *i as i64, e(), json!(["fmt"])),
            Out::ErrIo => o("err", e(), 0, e(), json!(["io"])),
            Out::Panic => o("panic", e(), 0, e(), e()),
        }
    }
    pub fn from_json(v: &Value) -> Option<Out> {
        let t = v.get("t")?.as_str()?;
        let bits = |k: &str| -> Option<Vec<u8>> {
            Some(v.get(k)?.as_array()?.iter().map(|x| x.as_i64().unwrap_or(0) as u8).collect())
        };
        let num = v.get("v").and_then(|x| x.as_i64()).unwrap_or(0);
        Some(match t {
            "unit" => Out::Unit,
            "vec" => Out::Vec(bits("b")?),
            "bit" => Out::Bit(num as u8),
            "none" => Out::None,
            "num" => Out::Num(num),
            "bool" => Out::Bool(num != 0),
            "ord" => Out::Ord(num as i8),
            "bytes" => Out::Bytes(bits("b")?),
            "str" => Out::Str(
                v.get("s")?.as_array()?.iter().map(|x| x.as_str().unwrap_or("").to_string()).collect(),
            ),
            "pair" => Out::Pair(bits("b")?, bits("q")?),
            "err" => {
                let k = v.get("s")?.as_array()?.first()?.as_str()?.to_string();
                match k.as_str() {
                    "cap" => Out::ErrCap,
                    "fmt" => Out::ErrFmt(num as usize),
                    _ => Out::ErrIo,
                }
            }
            "panic" => Out::Panic,
            _ => return None,
        })
    }
    pub fn tag(&self) -> &'static str {
        match self {
            Out::Unit => "unit",
            Out::Vec(_) => "vec",
            Out::Bit(_) => "bit",
            Out::None => "none",
            Out::Num(_) => "num",
            Out::Bool(_) => "bool",
            Out::Ord(_) => "ord",
            Out::Bytes(_) => "bytes",
            Out::Str(_) => "str",
            Out::Pair(_, _) => "pair",
            Out::ErrCap | Out::ErrFmt(_) | Out::ErrIo => "err",
            Out::Panic => "panic",
        }
    }
}

#[derive(Clone, PartialEq, Eq, Hash, Debug)]
pub struct FmtSpec {
    pub base: char, // d b o x X
    pub alt: bool,
    pub plus: bool,
    pub zero: bool,
    pub width: Option<usize>,
    pub fill: char,
    pub align: char, // '-' none, '<', '^', '>'
}

impl FmtSpec {
    pub fn to_json(&self) -> Value {
        json!({"base": self.base.to_string(), "alt": self.alt as u8, "plus": self.plus as u8,
               "zero": self.zero as u8, "width": self.width.map_or(-1, |w| w as i64),
               "fill": self.fill.to_string(),
               "align": if self.align == '-' { String::new() } else { self.align.to_string() }})
    }
    pub fn from_json(v: &Value) -> Option<FmtSpec> {
        let s = |k: &str| v.get(k).and_then(|x| x.as_str()).unwrap_or("");
        let n = |k: &str| v.get(k).and_then(|x| x.as_i64()).unwrap_or(0);
        Some(FmtSpec {
            base: s("base").chars().next()?,
            alt: n("alt") != 0,
            plus: n("plus") != 0,
            zero: n("zero") != 0,
            width: if n("width") < 0 { None } else { Some(n("width") as usize) },
            fill: s("fill").chars().next().unwrap_or(' '),
            align: s("align").chars().next().unwrap_or('-'),
        })
    }
}

/// Scalar arguments of a call.  Only the fields an operation uses are logged.
#[derive(Clone, PartialEq, Eq, Hash, Debug, Default)]
pub struct Args {
    pub n: Option<u128>, // length / amount / width; logged as min(n, BIG)
    pub ity: Option<IntTy>, // integer type of a shift amount or of to_int / from_slice elements
    pub i: Option<usize>,
    pub j: Option<usize>,
    pub bit: Option<u8>,
    pub e: Option<char>, // 'L' | 'B'
    pub bytes: Option<Vec<u8>>,
    pub chars: Option<Vec<String>>,
    pub els: Option<Vec<Bits>>,
    pub bits: Option<Bits>,
    pub fmt: Option<FmtSpec>,
    pub tk: Option<Kind>, // target kind of a conversion
    pub byval: bool,      // by-value flavour of a conversion
    pub lie: Option<usize>, // size_hint lower bound reported by the iterator fed to extend/collect
}

impl Args {
    pub fn n(n: usize) -> Args {
        Args { n: Some(n as u128), ..Default::default() }
    }
    pub fn to_json(&self) -> Value {
        let mut m = Map::new();
        if let Some(n) = self.n {
            m.insert("n".into(), json!(n.min(BIG) as u64));
            if n >= BIG {
                m.insert("nraw".into(), json!(n.to_string()));
            }
        }
        if let Some(t) = self.ity {
            m.insert("ity".into(), json!(t.name()));
        }
        if let Some(i) = self.i {
            m.insert("i".into(), json!((i as u128).min(BIG) as u64));
        }
        if let Some(j) = self.j {
            m.insert("j".into(), json!((j as u128).min(BIG) as u64));
        }
        if let Some(b) = self.bit {
            m.insert("bit".into(), json!(b));
        }
        if let Some(e) = self.e {
            m.insert("e".into(), json!(e.to_string()));
        }
        if let Some(b) = &self.bytes {
            m.insert("bytes".into(), json!(b));
        }
        if let Some(c) = &self.chars {
            m.insert("chars".into(), json!(c));
        }
        if let Some(c) = &self.els {
            m.insert("els".into(), json!(c));
        }
        if let Some(c) = &self.bits {
            m.insert("bits".into(), json!(c));
        }
        if let Some(f) = &self.fmt {
            m.insert("fmt".into(), f.to_json());
        }
        if let Some(k) = self.tk {
            m.insert("tk".into(), json!(k.name()));
        }
        if self.byval {
            m.insert("byval".into(), json!(1));
        }
        if let Some(l) = self.lie {
            m.insert("lie".into(), json!((l as u128).min(BIG) as u64));
        }
        Value::Object(m)
    }
    pub fn from_json(v: &Value) -> Args {
        let mut a = Args::default();
        let bits = |x: &Value| -> Vec<u8> {
            x.as_array().map(|r| r.iter().map(|y| y.as_i64().unwrap_or(0) as u8).collect()).unwrap_or_default()
        };
        if let Some(n) = v.get("n").and_then(|x| x.as_u64()) {
            a.n = Some(n as u128);
        }
        if let Some(s) = v.get("nraw").and_then(|x| x.as_str()) {
            a.n = s.parse().ok();
        }
        a.ity = v.get("ity").and_then(|x| x.as_str()).and_then(IntTy::from_name);
        a.i = v.get("i").and_then(|x| x.as_u64()).map(|x| x as usize);
        a.j = v.get("j").and_then(|x| x.as_u64()).map(|x| x as usize);
        a.bit = v.get("bit").and_then(|x| x.as_u64()).map(|x| x as u8);
        a.e = v.get("e").and_then(|x| x.as_str()).and_then(|s| s.chars().next());
        a.bytes = v.get("bytes").map(bits);
        a.chars = v.get("chars").and_then(|x| x.as_array()).map(|r| r.iter().map(|c| c.as_str().unwrap_or("").to_string()).collect());
        a.els = v.get("els").and_then(|x| x.as_array()).map(|r| r.iter().map(bits).collect());
        a.bits = v.get("bits").map(bits);
        a.fmt = v.get("fmt").and_then(FmtSpec::from_json);
        a.tk = v.get("tk").and_then(|x| x.as_str()).and_then(Kind::from_name);
        a.byval = v.get("byval").and_then(|x| x.as_u64()).unwrap_or(0) != 0;
        a.lie = v.get("lie").and_then(|x| x.as_u64()).map(|x| x as usize);
        a
    }
}
