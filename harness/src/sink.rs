//! Sharded ndjson trace output.

use serde_json::{json, Value};
use std::fs::File;
use std::io::{BufWriter, Write};

pub struct Sink {
    files: Vec<BufWriter<File>>,
    pub lines: Vec<u64>,
    next: usize,
    pub samples: Vec<Value>,
    pub total: u64,
}

impl Sink {
    pub fn new(dir: &str, prop: &str, profile: &str, shards: usize, hdr: &Value) -> Sink {
        std::fs::create_dir_all(dir).expect("harness: cannot create output directory");
        let mut files = Vec::new();
        for i in 0..shards {
            let p = format!("{}/{}-{}-{:02}.ndjson", dir, prop, profile, i);
            let mut f = BufWriter::new(File::create(&p).expect("harness: cannot create trace file"));
            let mut h = hdr.clone();
            h["op"] = json!("hdr");
            h["shard"] = json!(i);
            h["of"] = json!(shards);
            writeln!(f, "{}", h).unwrap();
            files.push(f);
        }
        Sink { lines: vec![1; shards], files, next: 0, samples: Vec::new(), total: 0 }
    }
    /// all events of one case / one history go to the same shard, in order
    pub fn emit(&mut self, events: Vec<Value>) {
        if events.is_empty() {
            return;
        }
        let s = self.next;
        self.next = (self.next + 1) % self.files.len();
        for ev in events {
            if self.samples.len() < 6 && (self.total % 97 == 0) {
                self.samples.push(ev.clone());
            }
            writeln!(self.files[s], "{}", ev).unwrap();
            self.lines[s] += 1;
            self.total += 1;
        }
    }
    pub fn finish(mut self) -> (Vec<u64>, Vec<Value>, u64) {
        for f in self.files.iter_mut() {
            f.flush().unwrap();
        }
        (self.lines, self.samples, self.total)
    }
}
