------------------------------- MODULE Store -------------------------------
(***************************************************************************)
(* LAYER 2: an implementation-shaped storage model.                        *)
(*                                                                         *)
(* The abstract state of Bva.tla contains nothing but the bits, so "no     *)
(* hidden state" (C03), "no bit of b beyond n influences any later         *)
(* observation" (C04) and "spare capacity never matters" (C01, C18) cannot *)
(* even be violated there.  Here a vector is what the Rust structs hold:   *)
(*     [len |-> n, raw |-> all storage bits]                               *)
(* where raw covers EVERY storage word - the padding bits of the last used *)
(* word and the spare words of a dynamic vector included - and the         *)
(* operations are transcribed from fixed.rs / dynamic.rs word by word:     *)
(* which words a loop visits, where a mask is applied, what reserve /      *)
(* shrink_to_fit copy.  W is the number of bits per storage word.          *)
(*                                                                         *)
(* TLC explores the complete reachable graph of this machine (every        *)
(* history) and checks                                                     *)
(*   Canonical   every storage bit at an index >= len is zero,             *)
(*   Refines     (on every transition) the abstraction Abs(s) moves as the *)
(*               Layer-1 operator of BitSeq says,                          *)
(*   ObsSound    the observers that read raw storage (is_zero, byte        *)
(*               serialisation, Bvd's ==, the hash feed, growth) answer    *)
(*               what the abstract observers answer.                       *)
(* The switches reproduce the code BEFORE the fix: commits (F2, F3, F8 in  *)
(* DESIGN.md) so that TLC finds the corresponding counterexample           *)
(* histories - the specification's own sensitivity test.                   *)
(***************************************************************************)
EXTENDS BitSeq, TLC

CONSTANTS W,                  \* bits per storage word
          NW,                 \* words of the fixed array / maximal words of the dynamic allocation
          Dyn,                \* TRUE: dynamic storage (Bvd), FALSE: fixed array (Bvf)
          MaskAfterBitop,     \* FALSE = before "fix: bitwise |= ^= &= left bits ... beyond the length"
          BoundByUsedWords,   \* FALSE = before "fix: Bvd += / -= &Bvf wrote into spare capacity words"
          ReadMasksWordOfLen, \* FALSE = before "fix: Bvf::read kept the surplus bits ..."
          PopClears,          \* FALSE = pop() leaves the popped bit in storage (a seeded change)
          ShlInMasks,         \* FALSE = shl_in() does not mask the partial last word (a seeded change)
          CopyRangeMasks,     \* FALSE = copy_range() does not mask the word holding the last bit (a seeded change)
          RotUsedBitsOnly,    \* FALSE = word-aligned rotations rotate the whole allocation, spare words included (a seeded change)
          CloneFromFresh      \* FALSE = clone_from() reuses the destination's storage without clearing the words it does not overwrite (a seeded change)

VARIABLE s                    \* [len, raw]

Words(n)  == (n + W - 1) \div W                 \* capacity_from_bit_len
NWords(v) == Len(v.raw) \div W
Abs(v)    == SubSeq(v.raw, 1, v.len)
Fresh(b)  == [len |-> Len(b), raw |-> Fit(b, W * (IF Dyn THEN Words(Len(b)) ELSE NW))]

\* raw with the bits of word j (0-based) at in-word positions >= k cleared:  word[j] &= mask(k)
MaskWord(raw, j, k) == [i \in 1..Len(raw) |-> IF (i - 1) \div W = j /\ (i - 1) % W >= k THEN 0 ELSE raw[i]]
\* mod2n(n): every word masked to the part of it that lies below n
Mod2n(raw, n) == [i \in 1..Len(raw) |-> IF i <= n THEN raw[i] ELSE 0]
\* the mask the dynamic code applies: only word n / W, only if it exists
MaskAtLen(raw, n) == IF n \div W < Len(raw) \div W THEN MaskWord(raw, n \div W, n % W) ELSE raw
SetWords(raw, from, to, b) == [i \in 1..Len(raw) |-> IF (i - 1) \div W >= from /\ (i - 1) \div W < to THEN b ELSE raw[i]]

(***************************************************************************)
(* Operations (post-state as a function of the pre-state)                  *)
(***************************************************************************)
Reserve(v, extra) ==
  IF Dyn /\ Words(v.len + extra) > NWords(v)
  THEN [v EXCEPT !.raw = Fit(v.raw, W * Words(v.len + extra))]     \* copy into a larger zeroed allocation
  ELSE v
ShrinkToFit(v) ==
  IF Dyn /\ Words(v.len) < NWords(v) THEN [v EXCEPT !.raw = SubSeq(v.raw, 1, W * Words(v.len))] ELSE v

SResize(v, n, b) ==
  IF n < v.len
  THEN LET r1 == SetWords(v.raw, n \div W + 1, Words(v.len), 0)
           r2 == MaskAtLen(r1, n)
       IN [len |-> n, raw |-> r2]
  ELSE IF n > v.len
  THEN LET v1 == Reserve(v, n - v.len)
           \* *l |= pattern & !mask(len % W) on word len / W
           r1 == [i \in 1..Len(v1.raw) |-> IF (i - 1) \div W = v.len \div W /\ (i - 1) % W >= v.len % W /\ b = 1 THEN 1 ELSE v1.raw[i]]
           r2 == SetWords(r1, v.len \div W + 1, Words(n), b)
           r3 == MaskAtLen(r2, n)
       IN [len |-> n, raw |-> r3]
  ELSE v

Push(v, b) == LET v1 == Reserve(v, 1) IN [len |-> v.len + 1, raw |-> [v1.raw EXCEPT ![v.len + 1] = b]]
Pop(v)     == [len |-> v.len - 1, raw |-> IF PopClears THEN [v.raw EXCEPT ![v.len] = 0] ELSE v.raw]

\* y is read through get_int: the operand's own bits, zero beyond its length
BitF(op, a, b) == CASE op = "and" -> (IF a + b = 2 THEN 1 ELSE 0) [] op = "or" -> (IF a + b >= 1 THEN 1 ELSE 0) [] op = "xor" -> (a + b) % 2
\* words visited by the assign loops
Visited(v) == IF Dyn THEN (IF BoundByUsedWords THEN Words(v.len) ELSE NWords(v)) ELSE NW
BitopAssign(v, op, y) ==
  LET vis == Visited(v)
      r1  == [i \in 1..Len(v.raw) |-> IF (i - 1) \div W < vis THEN BitF(op, v.raw[i], At(y, i)) ELSE v.raw[i]]
      r2  == IF ~MaskAfterBitop THEN r1 ELSE IF Dyn THEN MaskAtLen(r1, v.len) ELSE Mod2n(r1, v.len)
  IN [v EXCEPT !.raw = r2]

\* add / sub: a carry chain over the visited words, the carry out of the last visited word dropped,
\* then the final mask (mod2n for the array, the word containing len for the allocation)
AddSubAssign(v, op, y) ==
  LET vis == Visited(v)
      lo  == SubSeq(v.raw, 1, vis * W)
      sum == IF op = "add" THEN Add(lo, y) ELSE Sub(lo, y)
      r1  == sum \o SubSeq(v.raw, vis * W + 1, Len(v.raw))
      r2  == IF Dyn THEN MaskAtLen(r1, v.len) ELSE Mod2n(r1, v.len)
  IN [v EXCEPT !.raw = r2]

NotOp(v) ==
  LET vis == IF Dyn THEN Words(v.len) ELSE NW
      r1  == [i \in 1..Len(v.raw) |-> IF (i - 1) \div W < vis THEN 1 - v.raw[i] ELSE v.raw[i]]
      r2  == IF Dyn THEN MaskAtLen(r1, v.len) ELSE Mod2n(r1, v.len)
  IN [v EXCEPT !.raw = r2]

\* <<= k and >>= k.  The chunk loops of impl_shifts write positions below len only (<<=), or clear
\* up to the end of the word that holds the last bit (>>=); nothing else is touched.
ShlAssign(v, k) ==
  [v EXCEPT !.raw = [i \in 1..Len(v.raw) |-> IF i > v.len THEN v.raw[i] ELSE IF i - k >= 1 THEN v.raw[i - k] ELSE 0]]
ShrAssign(v, k) ==
  LET wend == W * Words(v.len) IN          \* end of the last used word
  [v EXCEPT !.raw = [i \in 1..Len(v.raw) |->
     IF k = 0 THEN v.raw[i]
     ELSE IF i + k <= v.len THEN v.raw[i + k]
     ELSE IF i <= wend THEN 0 ELSE v.raw[i]]]

\* shl_in / shr_in: whole words are shifted with a carry; only the partial last word is masked
ShlInOp(v, b) ==
  LET full == (v.len \div W) * W            \* bits in whole words
      r1 == [i \in 1..Len(v.raw) |->
               IF i <= full THEN (IF i = 1 THEN b ELSE v.raw[i - 1])
               ELSE IF (i - 1) \div W = v.len \div W /\ v.len % W # 0
                    THEN (IF (i - 1) % W >= v.len % W /\ ShlInMasks THEN 0    \* & mask(len % W)
                          ELSE IF i = 1 THEN b ELSE v.raw[i - 1])
               ELSE v.raw[i]]
  IN [v EXCEPT !.raw = r1]
ShrInOp(v, b) ==
  LET full == (v.len \div W) * W
      part == v.len % W
      r1 == [i \in 1..Len(v.raw) |->
               IF part # 0 /\ (i - 1) \div W = v.len \div W
               THEN \* (data >> 1) | (carry << (part - 1)): the bit above the top comes from the padding
                    (IF (i - 1) % W = part - 1 THEN (IF At(v.raw, i + 1) = 1 \/ b = 1 THEN 1 ELSE 0)
                     ELSE IF (i - 1) % W = W - 1 THEN 0 ELSE At(v.raw, i + 1))
               ELSE IF i <= full
               THEN (IF i = full /\ part = 0 THEN b ELSE At(v.raw, i + 1))
               ELSE v.raw[i]]
  IN [v EXCEPT !.raw = r1]

\* copy_range(s..e): a NEW vector; whole words are copied from the source (reading beyond e inside
\* the last word), then the word holding the last bit is masked
CopyRangeOp(v, st, e) ==
  LET n  == e - st
      nw == IF Dyn THEN Words(n) ELSE NW
      r0 == [i \in 1..(W * nw) |-> IF i <= W * Words(n) THEN At(v.raw, st + i) ELSE 0]
      r1 == IF n % W = 0 \/ ~CopyRangeMasks THEN r0 ELSE MaskWord(r0, n \div W, n % W)
  IN [len |-> n, raw |-> r1]

BYT == IF W % 2 = 0 THEN 2 ELSE 1     \* "byte" size of the model: must divide W, as 8 divides every real word size

\* rotl / rotr: a NEW zeroed allocation of the same number of words; the chunk loop writes positions
\* below len only.  (Seeded variant: a "fast path" for word-aligned lengths and amounts that rotates
\* the storage words themselves - every allocated word, also the spare ones.)
RotOp(v, k, left) ==
  LET n == v.len
      src(p) == IF left THEN ((p - 1 + n - (k % n)) % n) + 1 ELSE ((p - 1 + k) % n) + 1
      all == Len(v.raw)
      srcAll(p) == IF left THEN ((p - 1 + all - (k % all)) % all) + 1 ELSE ((p - 1 + k) % all) + 1
  IN IF n = 0 THEN [v EXCEPT !.raw = Zeros(Len(v.raw))]
     ELSE IF ~RotUsedBitsOnly /\ n % W = 0 /\ k % W = 0
     THEN [v EXCEPT !.raw = [p \in 1..all |-> v.raw[srcAll(p)]]]
     ELSE [v EXCEPT !.raw = [p \in 1..all |-> IF p <= n THEN v.raw[src(p)] ELSE 0]]

\* append(y): resize(len + |y|, 0), then y is written unit by unit (64-bit words for the allocation,
\* bytes through set_int for the array): the unit holding the old top bit is OR-ed, the following
\* units are ASSIGNED (whatever they held is overwritten), one unit beyond the last chunk included
\* when the old length is not unit-aligned.  Units that are not touched keep what resize left there.
UNIT == IF Dyn THEN W ELSE BYT
AppendOp(v, y) ==
  LET U     == UNIT
      off   == v.len % U
      slide == v.len \div U
      v1    == SResize(v, v.len + Len(y), 0)
      nch   == (Len(y) + U - 1) \div U
      ybit(p) == At(y, p - v.len)                 \* the operand is read through get_int: zero beyond its length
      exists(u) == IF Dyn THEN u * U < Len(v1.raw) ELSE u * U < v1.len     \* data.get_mut(u) / set_int's bound
      touched(u) == IF off = 0 THEN slide <= u /\ u < slide + nch
                    ELSE slide < u /\ u <= slide + nch /\ exists(u)
      r == [p \in 1..Len(v1.raw) |->
             LET u == (p - 1) \div U  q == (p - 1) % U IN
             IF nch = 0 THEN v1.raw[p]
             ELSE IF off # 0 /\ u = slide THEN (IF q >= off /\ ybit(p) = 1 THEN 1 ELSE v1.raw[p])
             ELSE IF touched(u) THEN (IF ~Dyn /\ p > v1.len THEN 0 ELSE ybit(p))
             ELSE v1.raw[p]]
  IN [len |-> v1.len, raw |-> r]

\* prepend(y) of the allocation: resize, <<= |y|, then the prefix's whole words are assigned and its
\* last word OR-ed in
PrependOp(v, y) ==
  IF Len(y) = 0 THEN v
  ELSE LET v1 == SResize(v, v.len + Len(y), 0)
           v2 == ShlAssign(v1, Len(y))
           last == Words(Len(y)) - 1
           r == [p \in 1..Len(v2.raw) |->
                  LET u == (p - 1) \div W IN
                  IF u < last THEN At(y, p)
                  ELSE IF u = last THEN (IF At(y, p) = 1 THEN 1 ELSE v2.raw[p])
                  ELSE v2.raw[p]]
       IN [len |-> v2.len, raw |-> r]

\* Clone::clone_from(&mut v, &src): Clone is derived, so the destination is dropped and replaced by a
\* copy of the source's whole allocation.  (Seeded variant: the destination's storage is kept when it
\* has room, the source's used words are copied over it and the rest is left as it was.)
CloneFromOp(v, src) ==
  IF CloneFromFresh \/ ~Dyn \/ NWords(v) < Words(src.len) THEN src
  ELSE [len |-> src.len, raw |-> [p \in 1..Len(v.raw) |-> IF p <= W * Words(src.len) THEN src.raw[p] ELSE v.raw[p]]]

\* read(stream, n): from_bytes stores WHOLE "bytes" (here: units of BYT bits), then the surplus is masked
ReadOp(bits, n) ==
  LET nb  == (n + BYT - 1) \div BYT
      all == Fit(bits, nb * BYT)
      nw  == IF Dyn THEN Words(nb * BYT) ELSE NW
      r0  == Fit(all, W * nw)
      r1  == IF Dyn \/ ~ReadMasksWordOfLen
             THEN (IF nw = 0 THEN r0 ELSE MaskWord(r0, nw - 1, ((n + W - 1) % W) + 1))   \* data.last_mut() &= mask((n-1) % W + 1)
             ELSE Mod2n(r0, n)
  IN [len |-> n, raw |-> r1]

(***************************************************************************)
(* Observers that read raw storage                                         *)
(***************************************************************************)
IsZeroRaw(v) == LET vis == IF Dyn THEN Words(v.len) ELSE NW IN \A i \in 1..(vis * W) : v.raw[i] = 0
\* to_vec reads whole bytes of storage: the padding of the last byte comes from raw
BytesRaw(v)  == SubSeq(v.raw \o Zeros(BYT), 1, BYT * ((v.len + BYT - 1) \div BYT))
\* Bvd == Bvd compares whole allocations, zero-extended
EqRaw(a, b)  == \A i \in 1..Max2(Len(a.raw), Len(b.raw)) : At(a.raw, i) = At(b.raw, i)

ObsSound(v) ==
  /\ IsZeroRaw(v) = IsZero(Abs(v))
  /\ BytesRaw(v) = Fit(Abs(v), BYT * ((v.len + BYT - 1) \div BYT))
  /\ Dyn => EqRaw(v, Fresh(Abs(v)))
  \* growing exposes only the requested fill bits
  /\ (Dyn \/ v.len < NW * W) => Abs(SResize(v, v.len + 1, 0)) = Append(Abs(v), 0)

Canonical(v) == \A i \in (v.len + 1)..Len(v.raw) : v.raw[i] = 0
TypeOK == /\ s.len \in 0..(NW * W) /\ Len(s.raw) % W = 0 /\ s.len <= Len(s.raw) /\ Len(s.raw) <= NW * W
          /\ IsBits(s.raw) /\ (~Dyn => Len(s.raw) = NW * W)

(***************************************************************************)
(* The machine                                                             *)
(***************************************************************************)
Cap == NW * W
\* operands: every vector of up to 4 bits, and longer ones (up to one bit beyond the capacity) of a few shapes
Operands == UNION {[1..k -> {0, 1}] : k \in 0..4}
            \cup {Ones(k) : k \in 5..(Cap + 1)} \cup {[i \in 1..k |-> i % 2] : k \in 5..(Cap + 1)}
            \cup {[i \in 1..k |-> IF i = k THEN 1 ELSE 0] : k \in 5..(Cap + 1)}

SInit == s = Fresh(<<>>)

\* every transition is checked against Layer 1 (Refines) when it is generated
Step(new, abs) ==
  /\ Assert(Abs(new) = abs, <<"Layer 2 does not refine Layer 1", s, new, abs>>)
  /\ s' = new

SNext ==
  \/ \E n \in 0..Cap, b \in {0, 1} : Step(SResize(s, n, b), Resize(Abs(s), n, b))
  \/ \E b \in {0, 1} : s.len < Cap /\ Step(Push(s, b), Append(Abs(s), b))
  \/ s.len > 0 /\ Step(Pop(s), SubSeq(Abs(s), 1, s.len - 1))
  \/ \E op \in {"and", "or", "xor"}, y \in Operands :
       Step(BitopAssign(s, op, y), CASE op = "and" -> And(Abs(s), y) [] op = "or" -> Or(Abs(s), y) [] op = "xor" -> Xor(Abs(s), y))
  \/ \E op \in {"add", "sub"}, y \in Operands :
       Step(AddSubAssign(s, op, y), IF op = "add" THEN Add(Abs(s), y) ELSE Sub(Abs(s), y))
  \/ Step(NotOp(s), Not(Abs(s)))
  \/ \E k \in 0..(Cap + 1) : Step(ShlAssign(s, k), Shl(Abs(s), k))
  \/ \E k \in 0..(Cap + 1) : Step(ShrAssign(s, k), Shr(Abs(s), k))
  \/ \E b \in {0, 1} : Step(ShlInOp(s, b), ShlIn(Abs(s), b).v)
  \/ \E b \in {0, 1} : Step(ShrInOp(s, b), ShrIn(Abs(s), b).v)
  \/ \E st \in 0..s.len : \E e \in st..s.len : Step(CopyRangeOp(s, st, e), CopyRange(Abs(s), st, e))
  \/ \E k \in 0..(Cap + 1) : Step(RotOp(s, k, TRUE), Rotl(Abs(s), k))
  \/ \E k \in 0..(Cap + 1) : Step(RotOp(s, k, FALSE), Rotr(Abs(s), k))
  \/ \E y \in Operands : s.len + Len(y) <= Cap /\ Step(AppendOp(s, y), Abs(s) \o y)
  \/ \E y \in Operands : Dyn /\ s.len + Len(y) <= Cap /\ Step(PrependOp(s, y), y \o Abs(s))
  \/ \E y \in Operands, extra \in {0, W} :
       Len(y) + extra <= Cap /\ Step(CloneFromOp(s, Reserve(Fresh(y), extra)), y)
  \/ \E k \in 0..Cap : Dyn /\ s.len + k <= Cap /\ Step(Reserve(s, k), Abs(s))
  \/ Dyn /\ Step(ShrinkToFit(s), Abs(s))
  \/ \E n \in 0..Cap, bits \in {Ones(Cap + BYT), [i \in 1..(Cap + BYT) |-> i % 2]} :
       Step(ReadOp(bits, n), Fit(bits, n))

SInv == TypeOK /\ Canonical(s) /\ ObsSound(s)
=============================================================================
