------------------------------- MODULE IterIdx -------------------------------
(***************************************************************************)
(* C17, integer abstraction of BitIterator for Apalache: the iterator is a *)
(* half-open index range [start, end) into a vector of N bits; contents do *)
(* not matter here.  Proved for UNBOUNDED N and arguments (0 <= k <= 2^64-1)*)
(* by an inductive invariant:                                              *)
(*     0 <= start <= end <= N                                              *)
(* and no call computes an intermediate value above usize::MAX (hi records *)
(* the largest intermediate of the last call) - the overflow that the      *)
(* pre-fix nth / nth_back had (PreFix = TRUE reproduces it: start + k).    *)
(*                                                                         *)
(*   apalache-mc check --cinit=ConstInit --init=Init    --inv=IndInv --length=0 IterIdx.tla                 *)
(*   apalache-mc check --cinit=ConstInit --init=IndInit --inv=IndInv --length=1 IterIdx.tla                 *)
(***************************************************************************)
EXTENDS Integers

CONSTANTS
  \* @type: Int;
  N,
  \* @type: Bool;
  PreFix

VARIABLES
  \* @type: Int;
  start,
  \* @type: Int;
  end,
  \* @type: Int;
  hi

USIZE_MAX == 18446744073709551615

ConstInit == N \in Int /\ N >= 0 /\ N <= USIZE_MAX /\ PreFix = FALSE
ConstInitPreFix == N \in Int /\ N >= 0 /\ N <= USIZE_MAX /\ PreFix = TRUE

Init == start = 0 /\ end = N /\ hi = 0

CallNext ==
  /\ start' = IF start < end THEN start + 1 ELSE start
  /\ end' = end
  /\ hi' = IF start < end THEN start + 1 ELSE start

CallNextBack ==
  /\ end' = IF start < end THEN end - 1 ELSE end
  /\ start' = start
  /\ hi' = end

CallNth ==
  \E k \in Int :
    /\ k >= 0 /\ k <= USIZE_MAX
    /\ IF PreFix
       THEN \* if self.range.start + n < self.range.end
            /\ start' = IF start + k < end THEN start + k + 1 ELSE end
            /\ hi' = start + k
       ELSE \* if n < self.range.end - self.range.start
            /\ start' = IF k < end - start THEN start + k + 1 ELSE end
            /\ hi' = IF k < end - start THEN start + k + 1 ELSE end
    /\ end' = end

CallNthBack ==
  \E k \in Int :
    /\ k >= 0 /\ k <= USIZE_MAX
    /\ IF PreFix
       THEN /\ end' = IF start + k < end THEN end - (k + 1) ELSE start
            /\ hi' = start + k
       ELSE /\ end' = IF k < end - start THEN end - (k + 1) ELSE start
            /\ hi' = IF k < end - start THEN k + 1 ELSE end
    /\ start' = start

\* size_hint, count, last read indices only
Stutter == start' = start /\ end' = end /\ hi' = end - start

Next == CallNext \/ CallNextBack \/ CallNth \/ CallNthBack \/ Stutter

IndInv ==
  /\ 0 <= start /\ start <= end /\ end <= N
  /\ 0 <= hi /\ hi <= USIZE_MAX

IndInit == start \in Int /\ end \in Int /\ hi \in Int /\ IndInv
=============================================================================
