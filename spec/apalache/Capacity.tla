------------------------------- MODULE Capacity -------------------------------
(***************************************************************************)
(* C18 / C19, integer abstraction for Apalache: lengths, capacities and    *)
(* the storage mode of the auto type; no bit contents.  Dynamic storage    *)
(* grows by whole 64-bit words (reserve), the auto type switches between   *)
(* inline storage (capacity 128) and the heap.  For UNBOUNDED lengths and  *)
(* arguments the inductive invariant gives                                 *)
(*     len <= capacity          at every point of every history            *)
(*     inline  =>  len <= 128                                              *)
(* and every growing call is enabled whatever the current state (the       *)
(* dynamic and auto types never run out of room).                          *)
(*                                                                         *)
(*   apalache-mc check --init=Init    --inv=IndInv --length=0 Capacity.tla                 *)
(*   apalache-mc check --init=IndInit --inv=IndInv --length=1 Capacity.tla                 *)
(***************************************************************************)
EXTENDS Integers

VARIABLES
  \* @type: Int;
  len,
  \* @type: Int;
  words,      \* allocated 64-bit words of the heap storage (meaningful when heap = TRUE)
  \* @type: Bool;
  heap,       \* auto type: FALSE = inline (Bvf<u64,2>), TRUE = heap (Bvd)
  \* @type: Bool;
  auto        \* TRUE: the auto type Bv, FALSE: the dynamic type Bvd (then heap = TRUE always)

W == 64
INLINE == 128
WordsFor(n) == (n + W - 1) \div W
CapOf == IF heap THEN W * words ELSE INLINE

Init ==
  /\ len = 0 /\ words = 0
  /\ auto \in BOOLEAN
  /\ heap = ~auto

\* Bvd::reserve(extra) / Bv::reserve(extra) (promotion when the inline capacity is exceeded)
ReserveEff(extra, w, h) ==
  IF h THEN [words |-> IF WordsFor(len + extra) > w THEN WordsFor(len + extra) ELSE w, heap |-> TRUE]
  ELSE IF len + extra > INLINE THEN [words |-> WordsFor(len + extra), heap |-> TRUE]   \* Bvd::from(inline) then reserve
  ELSE [words |-> w, heap |-> FALSE]

Reserve ==
  \E k \in Int :
    /\ k >= 0
    /\ words' = ReserveEff(k, words, heap).words
    /\ heap' = ReserveEff(k, words, heap).heap
    /\ len' = len /\ auto' = auto

\* push / resize(grow) / append / extend: reserve what is needed, then set the length
Grow ==
  \E n \in Int :
    /\ n >= len
    /\ words' = ReserveEff(n - len, words, heap).words
    /\ heap' = ReserveEff(n - len, words, heap).heap
    /\ len' = n /\ auto' = auto

\* pop / truncate / resize(shrink) / split_off keep the allocation
Shrink ==
  \E n \in Int :
    /\ n >= 0 /\ n <= len
    /\ len' = n /\ words' = words /\ heap' = heap /\ auto' = auto

ShrinkToFit ==
  /\ len' = len /\ auto' = auto
  /\ IF auto /\ heap /\ len <= INLINE THEN heap' = FALSE /\ words' = 0         \* back to inline storage
     ELSE IF heap THEN heap' = TRUE /\ words' = WordsFor(len)
     ELSE heap' = heap /\ words' = words

Next == Reserve \/ Grow \/ Shrink \/ ShrinkToFit

IndInv ==
  /\ len >= 0 /\ words >= 0
  /\ len <= CapOf
  /\ (~auto) => heap
  /\ (~heap) => len <= INLINE

IndInit == len \in Int /\ words \in Int /\ heap \in BOOLEAN /\ auto \in BOOLEAN /\ IndInv
=============================================================================
