------------------------------- MODULE BitSeq -------------------------------
(***************************************************************************)
(* Pure operators over finite lists of bits.                               *)
(*                                                                         *)
(* A bit vector is a sequence over {0,1}; INDEX 1 IS BIT 0 (the least      *)
(* significant bit), index Len(a) is the most significant bit.  Nothing in *)
(* this module knows about storage words, capacities or implementations:   *)
(* it is the functional contract of every bva operation.  No number larger *)
(* than a vector length (or a byte) is ever computed, so the operators     *)
(* work unchanged on 8-bit and on 600-bit vectors although TLC integers    *)
(* are 32 bit.  All recursion is expressed with the Java-overridden strict *)
(* folds of SequencesExt (recursive function definitions are re-evaluated  *)
(* lazily by TLC and blow up).                                             *)
(***************************************************************************)
EXTENDS Integers, Sequences, SequencesExt

Max2(a, b) == IF a >= b THEN a ELSE b
Min2(a, b) == IF a <= b THEN a ELSE b

Idx(n)      == [i \in 1..n |-> i]
Zeros(n)    == [i \in 1..n |-> 0]
Ones(n)     == [i \in 1..n |-> 1]
Fill(b, n)  == [i \in 1..n |-> b]
IsBits(a)   == \A i \in 1..Len(a) : a[i] \in {0, 1}

\* bit i (1-based) of a, zero outside the vector
At(a, i)    == IF 1 <= i /\ i <= Len(a) THEN a[i] ELSE 0
\* a zero-extended or truncated to exactly n bits
Fit(a, n)   == [i \in 1..n |-> At(a, i)]
Pow2(k)     == FoldLeft(LAMBDA acc, i : 2 * acc, 1, Idx(k))

(***************************************************************************)
(* Bit-count queries                                                       *)
(***************************************************************************)
\* run of b at the most significant end: scan LSB -> MSB, reset on a miss
LeadingRun(a, b)  == FoldLeft(LAMBDA acc, x : IF x = b THEN acc + 1 ELSE 0, 0, a)
\* run of b at the least significant end: scan MSB -> LSB, reset on a miss
TrailingRun(a, b) == FoldRight(LAMBDA x, acc : IF x = b THEN acc + 1 ELSE 0, a, 0)
LeadingZeros(a)   == LeadingRun(a, 0)
LeadingOnes(a)    == LeadingRun(a, 1)
TrailingZeros(a)  == TrailingRun(a, 0)
TrailingOnes(a)   == TrailingRun(a, 1)
Sig(a)            == Len(a) - LeadingZeros(a)
IsZero(a)         == \A i \in 1..Len(a) : a[i] = 0
PopCount(a)       == FoldLeft(LAMBDA acc, x : acc + x, 0, a)
\* a with the leading zeros removed (the "value" of a, independent of its length)
Norm(a)           == SubSeq(a, 1, Sig(a))

(***************************************************************************)
(* Comparison: numeric order of the unsigned values, the shorter operand   *)
(* being zero-extended.  -1 / 0 / 1.  The most significant differing bit   *)
(* decides, so scan LSB -> MSB and let later positions overwrite.          *)
(***************************************************************************)
Cmp(a, b) ==
  FoldLeft(LAMBDA acc, i : IF At(a, i) = At(b, i) THEN acc
                           ELSE IF At(a, i) > At(b, i) THEN 1 ELSE -1,
           0, Idx(Max2(Len(a), Len(b))))

(***************************************************************************)
(* Bitwise logic: result has the left operand's length; b is zero beyond   *)
(* its own length and ignored at and beyond Len(a).                        *)
(***************************************************************************)
And(a, b) == [i \in 1..Len(a) |-> IF a[i] = 1 /\ At(b, i) = 1 THEN 1 ELSE 0]
Or(a, b)  == [i \in 1..Len(a) |-> IF a[i] = 1 \/ At(b, i) = 1 THEN 1 ELSE 0]
Xor(a, b) == [i \in 1..Len(a) |-> IF a[i] # At(b, i) THEN 1 ELSE 0]
Not(a)    == [i \in 1..Len(a) |-> 1 - a[i]]

(***************************************************************************)
(* Shifts and rotations                                                    *)
(***************************************************************************)
Shl(a, k) == [i \in 1..Len(a) |-> IF i - k >= 1 THEN a[i - k] ELSE 0]
Shr(a, k) == [i \in 1..Len(a) |-> IF k <= Len(a) THEN At(a, i + k) ELSE 0]
\* one-position shifts with a bit shifted in; [v |-> new vector, o |-> expelled bit]
ShlIn(a, b) == IF Len(a) = 0 THEN [v |-> a, o |-> b]
               ELSE [v |-> <<b>> \o SubSeq(a, 1, Len(a) - 1), o |-> a[Len(a)]]
ShrIn(a, b) == IF Len(a) = 0 THEN [v |-> a, o |-> b]
               ELSE [v |-> SubSeq(a, 2, Len(a)) \o <<b>>, o |-> a[1]]
\* bit at index i moves to index (i + k) mod n (resp. (i - k) mod n); k reduced mod n
Rotl(a, k) == LET n == Len(a) IN
              IF n = 0 THEN a ELSE [i \in 1..n |-> a[((i - 1 + n - (k % n)) % n) + 1]]
Rotr(a, k) == LET n == Len(a) IN
              IF n = 0 THEN a ELSE [i \in 1..n |-> a[((i - 1 + (k % n)) % n) + 1]]

(***************************************************************************)
(* Wrap-around arithmetic on Len(a) bits, bit-serial.                      *)
(***************************************************************************)
\* a + b + c0 on Len(a) bits: [s |-> sum bits, c |-> carry out]
AddC(a, b, c0) ==
  FoldLeft(LAMBDA acc, i : LET t == a[i] + At(b, i) + acc.c
                           IN [s |-> Append(acc.s, t % 2), c |-> t \div 2],
           [s |-> <<>>, c |-> c0], Idx(Len(a)))
Add(a, b) == AddC(a, b, 0).s
\* a - b - c0 on Len(a) bits with a borrow chain: [s |-> difference, c |-> borrow out]
SubC(a, b, c0) ==
  FoldLeft(LAMBDA acc, i : LET t == a[i] - At(b, i) - acc.c
                           IN [s |-> Append(acc.s, IF t < 0 THEN t + 2 ELSE t),
                               c |-> IF t < 0 THEN 1 ELSE 0],
           [s |-> <<>>, c |-> c0], Idx(Len(a)))
Sub(a, b) == SubC(a, b, 0).s
\* shift-and-add, every partial product truncated to Len(a)
Mul(a, b) ==
  FoldLeft(LAMBDA acc, i : IF At(b, i) = 1 THEN Add(acc, Shl(a, i - 1)) ELSE acc,
           Zeros(Len(a)), Idx(Min2(Len(a), Len(b))))

(***************************************************************************)
(* Restoring division, most significant bit first.  Only meaningful when   *)
(* b is not zero.  Result [q, r], both of Len(a) bits.  The running        *)
(* remainder is kept on Len(a)+1 bits so that 2r+1 cannot overflow.        *)
(***************************************************************************)
DivRem(a, b) ==
  LET n  == Len(a)
      m  == n + 1
      bb == Fit(b, m)
      step(acc, j) ==              \* j runs 1..n, bit index i = n + 1 - j
        LET i  == n + 1 - j
            r1 == <<a[i]>> \o SubSeq(acc.r, 1, m - 1)      \* 2r + a[i]
        IN IF Cmp(r1, bb) >= 0
           THEN [q |-> [acc.q EXCEPT ![i] = 1], r |-> Sub(r1, bb)]
           ELSE [q |-> acc.q, r |-> r1]
      res == FoldLeft(step, [q |-> Zeros(n), r |-> Zeros(m)], Idx(n))
  IN IF Sig(b) > n THEN [q |-> Zeros(n), r |-> a]     \* divisor larger than any n-bit value
     ELSE [q |-> res.q, r |-> SubSeq(res.r, 1, n)]

\* division by a small positive integer d (d < 2^20): [q, r] with r an integer
DivSmall(a, d) ==
  LET n == Len(a)
      step(acc, j) ==
        LET i == n + 1 - j
            t == 2 * acc.r + a[i]
        IN IF t >= d THEN [q |-> [acc.q EXCEPT ![i] = 1], r |-> t - d]
                     ELSE [q |-> acc.q, r |-> t]
  IN FoldLeft(step, [q |-> Zeros(n), r |-> 0], Idx(n))

(***************************************************************************)
(* Integer value -- ONLY for small-scope models (Len(a) <= 30).            *)
(***************************************************************************)
Val(a) == FoldRight(LAMBDA x, acc : 2 * acc + x, a, 0)
\* the n-bit vector holding v mod 2^n (v >= 0)
FromVal(v, n) == [i \in 1..n |-> (v \div Pow2(i - 1)) % 2]

(***************************************************************************)
(* List edits                                                              *)
(***************************************************************************)
SetBit(a, i, b)  == [a EXCEPT ![i + 1] = b]                    \* i is 0-based
Resize(a, n, b)  == [i \in 1..n |-> IF i <= Len(a) THEN a[i] ELSE b]
Truncate(a, n)   == IF n < Len(a) THEN SubSeq(a, 1, n) ELSE a
TopBit(a)        == IF Len(a) = 0 THEN 0 ELSE a[Len(a)]
SignExtend(a, n) == IF n > Len(a) THEN Resize(a, n, TopBit(a)) ELSE a
Insert(a, i, x)  == SubSeq(a, 1, i) \o x \o SubSeq(a, i + 1, Len(a))   \* i is 0-based
CopyRange(a, s, e) == SubSeq(a, s + 1, e)                       \* bits s .. e-1 (0-based)

(***************************************************************************)
(* Bytes.  A byte is an integer 0..255.  Little: byte j carries bits       *)
(* 8j..8j+7; Big: the same bytes in reverse order.  e \in {"L","B"}.        *)
(***************************************************************************)
ByteOf(a, j) ==                       \* j 0-based byte number
  FoldLeft(LAMBDA acc, t : acc + At(a, 8 * j + t) * Pow2(t - 1), 0, Idx(8))
NumBytes(n) == (n + 7) \div 8
ToBytesLE(a) == [j \in 1..NumBytes(Len(a)) |-> ByteOf(a, j - 1)]
ToBytes(a, e) == IF e = "L" THEN ToBytesLE(a) ELSE Reverse(ToBytesLE(a))
BitsOfBytesLE(bs) == [i \in 1..(8 * Len(bs)) |-> (bs[((i - 1) \div 8) + 1] \div Pow2((i - 1) % 8)) % 2]
FromBytes(bs, e) == IF e = "L" THEN BitsOfBytesLE(bs) ELSE BitsOfBytesLE(Reverse(bs))

(***************************************************************************)
(* Digits (most significant first, as a sequence of one-character strings) *)
(***************************************************************************)
LowerDigits == <<"0","1","2","3","4","5","6","7","8","9","a","b","c","d","e","f">>
UpperDigits == <<"0","1","2","3","4","5","6","7","8","9","A","B","C","D","E","F">>

\* value of the g-bit group number j (0-based) of a
Group(a, g, j) == FoldLeft(LAMBDA acc, t : acc + At(a, g * j + t) * Pow2(t - 1), 0, Idx(g))

\* digits in base 2^g (g = 1, 3, 4), minimal, "0" for zero / empty
PowDigits(a, g, alphabet) ==
  LET s  == Sig(a)
      nd == (s + g - 1) \div g
  IN IF nd = 0 THEN <<"0">>
     ELSE [d \in 1..nd |-> alphabet[Group(a, g, nd - d) + 1]]

\* decimal digits by repeated division by ten; at most Len(a) \div 3 + 1 digits
DecDigits(a) ==
  LET step(acc, j) ==
        IF IsZero(acc.cur) THEN acc
        ELSE LET dr == DivSmall(acc.cur, 10)
             IN [cur |-> dr.q, ds |-> <<LowerDigits[dr.r + 1]>> \o acc.ds]
      res == FoldLeft(step, [cur |-> a, ds |-> <<>>], Idx(Len(a) \div 3 + 1))
  IN IF res.ds = <<>> THEN <<"0">> ELSE res.ds

\* base \in {"d","b","o","x","X"}
Digits(a, base) ==
  CASE base = "d" -> DecDigits(a)
    [] base = "b" -> PowDigits(a, 1, LowerDigits)
    [] base = "o" -> PowDigits(a, 3, LowerDigits)
    [] base = "x" -> PowDigits(a, 4, LowerDigits)
    [] base = "X" -> PowDigits(a, 4, UpperDigits)

Prefix(base) ==
  CASE base = "d" -> <<>>
    [] base = "b" -> <<"0","b">>
    [] base = "o" -> <<"0","o">>
    [] base = "x" -> <<"0","x">>
    [] base = "X" -> <<"0","x">>

(***************************************************************************)
(* core::fmt::Formatter::pad_integral for a non-negative number.           *)
(* f = [base, alt, plus, zero, width, fill, align]; width = -1 for none;   *)
(* align \in {"", "<", "^", ">"}; fill a one-character string.             *)
(***************************************************************************)
PadIntegral(digits, f) ==
  LET sign   == IF f.plus = 1 THEN <<"+">> ELSE <<>>
      prefix == IF f.alt = 1 THEN Prefix(f.base) ELSE <<>>
      w      == Len(digits) + Len(sign) + Len(prefix)
      pad    == f.width - w
      rep(c, n) == [i \in 1..n |-> c]
  IN IF f.width < 0 \/ pad <= 0 THEN sign \o prefix \o digits
     ELSE IF f.zero = 1 THEN sign \o prefix \o rep("0", pad) \o digits
     ELSE LET al   == IF f.align = "" THEN ">" ELSE f.align
              pre  == CASE al = "<" -> 0 [] al = ">" -> pad [] al = "^" -> pad \div 2
              post == pad - pre
          IN rep(f.fill, pre) \o sign \o prefix \o digits \o rep(f.fill, post)

Format(a, f) == PadIntegral(Digits(a, f.base), f)

(***************************************************************************)
(* Parsing: characters are one-character strings, first character is the   *)
(* most significant bit / nibble.                                          *)
(***************************************************************************)
HexVal == [c \in {"0","1","2","3","4","5","6","7","8","9",
                  "a","b","c","d","e","f","A","B","C","D","E","F"} |->
             CASE c = "0" -> 0  [] c = "1" -> 1  [] c = "2" -> 2  [] c = "3" -> 3
               [] c = "4" -> 4  [] c = "5" -> 5  [] c = "6" -> 6  [] c = "7" -> 7
               [] c = "8" -> 8  [] c = "9" -> 9
               [] c \in {"a","A"} -> 10 [] c \in {"b","B"} -> 11 [] c \in {"c","C"} -> 12
               [] c \in {"d","D"} -> 13 [] c \in {"e","E"} -> 14 [] c \in {"f","F"} -> 15]
IsBinChar(c) == c \in {"0", "1"}
IsHexChar(c) == c \in DOMAIN HexVal
\* 0-based index of the first character not satisfying ok, or -1
FirstBad(cs, ok(_)) ==
  FoldRight(LAMBDA i, acc : IF ok(cs[i]) THEN acc ELSE i - 1, Idx(Len(cs)), -1)
BinBits(cs) == LET n == Len(cs) IN [i \in 1..n |-> IF cs[n + 1 - i] = "1" THEN 1 ELSE 0]
HexBits(cs) == LET n == Len(cs) IN
               [i \in 1..(4 * n) |-> (HexVal[cs[n - ((i - 1) \div 4)]] \div Pow2((i - 1) % 4)) % 2]

(***************************************************************************)
(* Iterators: a slice iterator is the list of remaining bits.              *)
(***************************************************************************)
DropFront(s, k) == IF k >= Len(s) THEN <<>> ELSE SubSeq(s, k + 1, Len(s))
DropBack(s, k)  == IF k >= Len(s) THEN <<>> ELSE SubSeq(s, 1, Len(s) - k)
=============================================================================
