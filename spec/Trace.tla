------------------------------- MODULE Trace -------------------------------
(***************************************************************************)
(* Trace validation: is a recorded execution of the real bva code a        *)
(* behaviour of the Bva state machine?                                     *)
(*                                                                         *)
(* The Rust harness logs one ndjson line per public call (at its return,   *)
(* the linearization point of a sequential library): operation, form, the  *)
(* OBSERVED state of the subject and operand immediately before the call,  *)
(* the arguments, the OBSERVED state afterwards and the returned value.    *)
(* TraceNext consumes the lines in order.  Each step                       *)
(*   - checks that the logged pre-state is the model's current state of    *)
(*     that register (unless the line (re)binds the register: nb = 1),     *)
(*   - takes the Bva action Call(r, ev, capacity) and                      *)
(*   - compares what the specification allows (Api / ApiIt / CapOk / the   *)
(*     relational predicates) with what was logged, under the conformance  *)
(*     predicate selected by the line's cf field.                          *)
(* A line that does not conform is reported (MISMATCH ...) and counted and *)
(* the model is re-synchronised on the observed post-state so that the     *)
(* REST of the trace is still checked.  The trace is accepted iff every    *)
(* line was consumed and no line was reported (POSTCONDITION).             *)
(***************************************************************************)
EXTENDS Bva, Json, IOUtils

Rec == ndJsonDeserialize(IOEnv.TRACE)

VARIABLES l,        \* next line of Rec to consume
          hashOf,   \* <<kind, normalised bits>> -> id of the byte stream fed to the Hasher (C10)
          nbad      \* number of non-conforming lines so far

tvars == <<regs, iter, l, hashOf, nbad>>

(***************************************************************************)
(* Conformance predicates.  Each returns a (possibly empty) sequence of    *)
(* complaint strings.                                                      *)
(***************************************************************************)
Complain(cond, what) == IF cond THEN <<>> ELSE <<what>>

\* Derived probes: the harness grew a clone of every vector the call produced with zeros,
\* (directly, and after pushing zeros up to the first bit of the next storage word), serialised it,
\* asked is_zero and compared it with a fresh vector holding the same bits.  p.w names the probed vector: the returned vector(s)
\* ("ob", "oq") or the subject afterwards ("pb").  Storage dirt beyond len shows up here.
ProbeTarget(e, w) == CASE w = "ob" -> e.o.b [] w = "oq" -> e.o.q [] w = "pb" -> e.pb
ProbeOk(p, res) ==
  /\ p.ok = 1
  /\ Len(p.g) >= Len(res)
  /\ p.g = res \o Zeros(Len(p.g) - Len(res))
  /\ Len(p.gw) >= Len(res)
  /\ p.gw = res \o Zeros(Len(p.gw) - Len(res))     \* pushed into the next storage word, then grown
  /\ p.by = ToBytesLE(res)
  /\ p.z = (IF IsZero(res) THEN 1 ELSE 0)
  /\ p.e = 1                 \* == / cmp / >= against a fresh vector holding the same bits
ConfProbes(ev, e) ==
  IF "pr" \notin DOMAIN ev THEN <<>>
  ELSE Complain(\A i \in 1..Len(ev.pr) : ProbeOk(ev.pr[i], ProbeTarget(e, ev.pr[i].w)),
                "later-observation-of-result")

\* Three-way cross-check: where the harness could compute the result with native u128 arithmetic,
\* core::fmt or from_str_radix it logged it as `ref`.  The SPECIFICATION must agree with that
\* reference; if it does not, the specification is wrong (tool error), whatever the code did.
SpecRes(ev, e) ==
  IF ev.op \in BinOps \cup ShiftOps THEN OVec(IF IsAssignForm(ev.f) THEN e.pb ELSE e.o.b)
  ELSE IF ev.op \in {"from_binary", "from_hex"} THEN OVec(e.pb)
  ELSE e.o
RefAgrees(ev, e) ==
  IF "ref" \notin DOMAIN ev \/ e.o.t \in {"panic", "err"} THEN <<>>
  ELSE Complain(SpecRes(ev, e) = ev.ref, "SPEC-DISAGREES-WITH-REFERENCE")

\* function contract: post-state and result are exactly what Api allows
ConfFun(ev) ==
  LET e == Api(ev) IN
  RefAgrees(ev, e) \o
  Complain(ev.py = ev.y.b, "operand-modified") \o
  ( IF e.o.t = "panic"
    THEN Complain(ev.o.t = "panic", "expected-panic") \o
         Complain(IsFixed(ev.x) => ev.px.n <= ev.x.c, "len>cap-after-panic")
    ELSE IF e.o = OErrIo
    THEN Complain(ev.o.t = "err", "expected-io-error") \o Complain(ev.px.b = e.pb, "post-bits")
    ELSE IF ev.op = "sign_extend" /\ Len(ev.x.b) = 0      \* no "previous top bit": either fill is allowed
    THEN Complain(ev.px.b \in {Zeros(Len(e.pb)), Ones(Len(e.pb))}, "post-bits") \o Complain(ev.o = e.o, "result")
    ELSE Complain(ev.o = e.o, "result") \o Complain(ev.px.b = e.pb, "post-bits") \o ConfProbes(ev, e) )

\* C03: the history-made subject and a fresh twin built from its observed bits
\* answer the same call identically
ConfTwin(ev) ==
  Complain(ev.tw.o.t = ev.o.t, "twin-result-kind") \o
  ( IF ev.o.t = "panic" THEN <<>>
    ELSE Complain(ev.tw.o = ev.o, "twin-result") \o Complain(ev.tw.pb = ev.px.b, "twin-post-bits") \o
         Complain(ev.tw.pr = ev.pr, "twin-later-observation") )

\* C20: all forms of one operator agree; borrowed operands and pre-clones unchanged
ConfForms(ev) ==
  LET fs == ev.forms IN
  Complain(\A i \in 1..Len(fs) : fs[i].res = fs[1].res, "forms-disagree") \o
  Complain(\A i \in 1..Len(fs) : fs[i].xs = ev.x.b, "left-operand-or-clone-modified") \o
  Complain(\A i \in 1..Len(fs) : fs[i].ys = ev.y.b, "right-operand-modified")

\* C10: within one type, equal values (same normalised bits) feed the same stream
\* (ev.op is "hash": the vector hashed as a key; or "hash_slice": as an element of a hashed slice)
HashKey(ev) == <<ev.op, ev.x.k, Norm(ev.x.b)>>
ConfHash(ev) ==
  Complain(HashKey(ev) \in DOMAIN hashOf => hashOf[HashKey(ev)] = ev.h, "equal-values-hash-differently") \o
  Complain(ev.px.b = ev.x.b, "post-bits")

\* C18: capacity inequalities, bits as specified, dynamic/auto never fail
ConfCap(ev) ==
  LET e == Api(ev) IN
  Complain(ev.px.n <= ev.px.c /\ CapOk(ev, ev.px.b, ev.px.c), "capacity-rule") \o
  ( IF IsFixed(ev.x) THEN <<>>
    ELSE Complain(ev.o.t \notin {"panic", "err"}, "dynamic/auto-failed") \o
         Complain(ev.px.b = e.pb, "post-bits") \o Complain(ev.o = e.o, "result") )

\* C19: outcome class and len <= capacity, whatever the bits
ConfSig(ev) ==
  LET e == Api(ev) IN
  Complain(ev.px.n <= ev.px.c, "len>cap") \o
  ( IF e.o.t \in {"panic", "err"} THEN Complain(ev.o.t = e.o.t, "overflow-not-signalled")
    ELSE Complain(ev.o.t \notin {"panic", "err"}, "spurious-failure") ) \o
  ( IF ev.o.t = "vec" THEN Complain(~IsFixed(ev.x) \/ Len(ev.o.b) <= ev.x.c, "result-len>cap") ELSE <<>> )

\* iterator calls: results equal those of the slice-iterator model
ConfIt(ev) ==
  LET e == ApiIt(ev, iter) IN
  Complain(ev.o = e.o, "result") \o Complain(ev.px.b = ev.x.b, "vector-modified-by-iteration")

Conf(ev) ==
  IF ev.op \in ItOps THEN ConfIt(ev)
  ELSE CASE ev.cf = "fun"   -> ConfFun(ev)
         [] ev.cf = "twin"  -> ConfTwin(ev)
         [] ev.cf = "forms" -> ConfForms(ev)
         [] ev.cf = "hash"  -> ConfHash(ev)
         [] ev.cf = "cap"   -> ConfCap(ev)
         [] ev.cf = "sig"   -> ConfSig(ev)
         [] ev.cf = "setup" -> <<>>     \* a step that only produces the next state of a history: not judged
                                         \* by this check (the model re-synchronises on what was observed)

\* the model's idea of the pre-state must be the observed pre-state
Chain(ev) ==
  IF ev.nb = 1 \/ ev.op \in ItOps \/ ev.r \notin DOMAIN regs THEN <<>>
  ELSE Complain(regs[ev.r].b = ev.x.b, "pre-state-differs-from-model")

Expected(ev) == IF ev.op \in ItOps THEN ApiIt(ev, iter)
                ELSE IF ev.cf \in {"forms", "hash", "twin", "setup"} THEN [pb |-> ev.px.b, o |-> ev.o]
                ELSE Api(ev)

(***************************************************************************)
(* The trace specification                                                 *)
(***************************************************************************)
TraceInit ==
  /\ BvaInit
  /\ l = 1 /\ hashOf = << >> /\ nbad = 0
  /\ TLCSet(17, 0)

Step(ev) ==
  LET complaints == Chain(ev) \o Conf(ev)
      ok == complaints = <<>>
  IN
  /\ IF ok THEN TRUE
     ELSE /\ PrintT(ToJson([k |-> "MISMATCH", l |-> l, c |-> complaints, e |-> Expected(ev)]))
          /\ TLCSet(17, nbad + 1)
  /\ nbad' = IF ok THEN nbad ELSE nbad + 1
  /\ IF ev.op \in ItOps
     THEN Call(ev.r, ev, 0)
     ELSE IF ok /\ ev.cf \in {"fun", "cap"} /\ Api(ev).o.t # "panic"
     THEN Call(ev.r, ev, ev.px.c)                       \* the Bva action itself
     ELSE /\ regs' = Bind(ev.r, [cl |-> ev.x.cl, c |-> ev.px.c, b |-> ev.px.b])   \* (re)synchronise on what was observed
          /\ UNCHANGED iter
  /\ hashOf' = IF ev.cf = "hash" /\ HashKey(ev) \notin DOMAIN hashOf
               THEN hashOf @@ (HashKey(ev) :> ev.h) ELSE hashOf

TraceNext ==
  /\ l <= Len(Rec)
  /\ l' = l + 1
  /\ IF Rec[l].op = "hdr" THEN UNCHANGED <<regs, iter, hashOf, nbad>> ELSE Step(Rec[l])

TraceSpec == TraceInit /\ [][TraceNext]_tvars

\* every line consumed, none reported
TraceAccepted ==
  LET consumed == TLCGet("stats").diameter - 1 IN
  /\ PrintT(ToJson([k |-> "SUMMARY", consumed |-> consumed, lines |-> Len(Rec), bad |-> TLCGet(17)]))
  /\ consumed = Len(Rec)
  /\ TLCGet(17) = 0

\* C18 / C19 as a state invariant of the validated behaviour
TraceLenLeCap == LenLeCap
=============================================================================
