------------------------------- MODULE MCHash -------------------------------
(***************************************************************************)
(* C10 at the design level: what a vector feeds a Hasher must be a         *)
(* function of its VALUE, whatever its length, spare capacity or storage   *)
(* mode.  Two registers go through every history of constructions, resizes,*)
(* reservations and shrink_to_fit; in every reachable state, if they       *)
(* compare equal (numerically, Bva!Cmp) they feed the same data.           *)
(*                                                                         *)
(* Feed is the design under test:                                          *)
(*   "sig"  significant bits, then the words holding them (the code after  *)
(*          the fix: commit)            -> invariant holds                 *)
(*   "len"  length, then the used words (the code before the fix)          *)
(*          -> TLC finds zeros(1) vs zeros(2)                              *)
(*   "raw"  every allocated word        -> TLC finds a spare-capacity pair *)
(* The last two are run as sensitivity checks.                             *)
(***************************************************************************)
EXTENDS BitSeq, TLC

CONSTANTS MaxLen, W, Design

VARIABLES r1, r2      \* [b |-> bits, words |-> allocated storage words]

Words(n) == (n + W - 1) \div W
Vec(b, extra) == [b |-> b, words |-> Words(Len(b)) + extra]

Feed(v) ==
  CASE Design = "sig" -> <<Sig(v.b), Fit(v.b, W * Words(Sig(v.b)))>>
    [] Design = "len" -> <<Len(v.b), Fit(v.b, W * Words(Len(v.b)))>>
    [] Design = "raw" -> <<Sig(v.b), Fit(v.b, W * v.words)>>

AllBits == UNION {[1..k -> {0, 1}] : k \in 0..MaxLen}

Init == r1 = Vec(<<>>, 0) /\ r2 = Vec(<<>>, 0)

Op(v, v2) ==
  \/ \E b \in AllBits : v2 = Vec(b, 0)                                        \* any constructor
  \/ \E n \in 0..MaxLen, c \in {0, 1} :                                       \* resize keeps the allocation when shrinking
       v2 = [b |-> Resize(v.b, n, c), words |-> Max2(v.words, Words(n))]
  \/ \E k \in 0..W : v2 = [v EXCEPT !.words = Max2(v.words, Words(Len(v.b) + k))]   \* reserve
  \/ v2 = [v EXCEPT !.words = Words(Len(v.b))]                                \* shrink_to_fit

Next == (\E v2 \in {Vec(b, e) : b \in AllBits, e \in 0..2} : Op(r1, v2) /\ r1' = v2 /\ r2' = r2)
     \/ (\E v2 \in {Vec(b, e) : b \in AllBits, e \in 0..2} : Op(r2, v2) /\ r2' = v2 /\ r1' = r1)

HashConsistent == Cmp(r1.b, r2.b) = 0 => Feed(r1) = Feed(r2)
TypeOK == r1.words >= Words(Len(r1.b)) /\ r2.words >= Words(Len(r2.b))
=============================================================================
