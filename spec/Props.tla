------------------------------- MODULE Props -------------------------------
(***************************************************************************)
(* The twenty properties of /verif/properties.jsonl as formulas over a     *)
(* transition of the Bva machine: ev is the event (operation, subject and  *)
(* operand before the call, arguments), r = [pb, o] the effect Api(ev).    *)
(* Each formula is the property's own statement - numeric (Val), algebraic *)
(* or list-shaped - and deliberately NOT the definition of the operator in *)
(* BitSeq: TLC checking Cxx on every transition of a bounded model is a    *)
(* check of the oracle against the statement, not a tautology.             *)
(* Val() is integer evaluation: only used in small-scope models.           *)
(***************************************************************************)
EXTENDS Bva

Sign(v) == IF v > 0 THEN 1 ELSE IF v < 0 THEN -1 ELSE 0
ModP(v, n) == ((v % Pow2(n)) + Pow2(n)) % Pow2(n)

ResOf(ev, r) == IF IsAssignForm(ev.f) THEN r.pb ELSE r.o.b

(* C01: a+b, a-b, a*b have a's length and value (val(a) op val(b)) mod 2^n *)
C01(ev, r) ==
  ev.op \in {"add", "sub", "mul"} =>
    LET a == ev.x.b  b == ev.y.b  n == Len(ev.x.b)  res == ResOf(ev, r)
        va == Val(a)  vb == Val(b) % Pow2(n)
    IN /\ Len(res) = n /\ IsBits(res)
       /\ ev.op = "add" => Val(res) = (va + vb) % Pow2(n)
       /\ ev.op = "sub" => Val(res) = (va + Pow2(n) - vb) % Pow2(n)
       /\ ev.op = "mul" => Val(res) = (va * vb) % Pow2(n)
       \* algebraic laws on the same space
       /\ ev.op = "add" => Sub(res, b) = a
       /\ ev.op = "sub" => Add(res, b) = a
       /\ ev.op = "mul" /\ vb = 1 => res = a
       \* the result never depends on bits of b at or beyond n
       /\ BinRes(ev.op, a, Fit(b, n)) = res

(* C02: q*b + r = a, r < b, lengths; zero divisor panics *)
C02(ev, r) ==
  ev.op \in {"div", "rem", "div_rem"} =>
    LET a == ev.x.b  b == ev.y.b  n == Len(ev.x.b) IN
    IF Val(b) = 0 THEN r.o.t = "panic"
    ELSE LET d == DivRem(a, b) IN
         /\ Len(d.q) = n /\ Len(d.r) = n
         /\ Val(d.q) * Val(b) + Val(d.r) = Val(a)
         /\ Val(d.r) < Val(b)
         /\ Val(d.q) = Val(a) \div Val(b) /\ Val(d.r) = Val(a) % Val(b)
         /\ ev.op = "div" => ResOf(ev, r) = d.q
         /\ ev.op = "rem" => ResOf(ev, r) = d.r
         /\ ev.op = "div_rem" => r.o.b = d.q /\ r.o.q = d.r

(* C04: bit i of the result is the Boolean function of a's bit i and b's bit i *)
C04(ev, r) ==
  /\ ev.op \in {"and", "or", "xor"} =>
       LET a == ev.x.b  b == ev.y.b  n == Len(ev.x.b)  res == ResOf(ev, r) IN
       /\ Len(res) = n
       /\ \A i \in 1..n :
            LET bi == IF i <= Len(b) THEN b[i] ELSE 0 IN
            res[i] = CASE ev.op = "and" -> (IF a[i] + bi = 2 THEN 1 ELSE 0)
                       [] ev.op = "or"  -> (IF a[i] + bi >= 1 THEN 1 ELSE 0)
                       [] ev.op = "xor" -> (a[i] + bi) % 2
       \* no bit of b at an index >= n influences the result
       /\ BinRes(ev.op, a, Fit(b, n)) = res
       \* De Morgan, idempotence, self-inverse
       /\ ev.op = "and" => Not(res) = Or(Not(a), Not(Fit(b, n)))
       /\ ev.op = "xor" => Xor(res, b) = a
  /\ ev.op = "not" =>
       /\ Len(r.o.b) = Len(ev.x.b)
       /\ \A i \in 1..Len(ev.x.b) : r.o.b[i] + ev.x.b[i] = 1
       /\ Not(r.o.b) = ev.x.b

(* C05: logical shifts, zero fill, any amount; one-position shifts with a bit shifted in *)
C05(ev, r) ==
  LET a == ev.x.b  n == Len(ev.x.b) IN
  /\ ev.op \in {"shl", "shr"} =>
       LET k == ev.a.n  res == ResOf(ev, r) IN
       /\ Len(res) = n
       /\ k >= n => res = Zeros(n)
       /\ k < n /\ ev.op = "shl" => Val(res) = (Val(a) * Pow2(k)) % Pow2(n)
       /\ k < n /\ ev.op = "shr" => Val(res) = Val(a) \div Pow2(k)
       /\ \A i \in 0..(n - 1) :
            res[i + 1] = IF ev.op = "shl" THEN (IF i - k >= 0 THEN a[i - k + 1] ELSE 0)
                         ELSE (IF k < n /\ i + k < n THEN a[i + k + 1] ELSE 0)
  /\ ev.op = "shl_in" =>
       IF n = 0 THEN r.pb = a /\ r.o = OBit(ev.a.bit)
       ELSE /\ Len(r.pb) = n /\ r.o = OBit(a[n])
            /\ Val(r.pb) = (2 * Val(a) + ev.a.bit) % Pow2(n)
            /\ ShrIn(r.pb, a[n]).v = a                \* round trip
  /\ ev.op = "shr_in" =>
       IF n = 0 THEN r.pb = a /\ r.o = OBit(ev.a.bit)
       ELSE /\ Len(r.pb) = n /\ r.o = OBit(a[1])
            /\ Val(r.pb) = (Val(a) \div 2) + ev.a.bit * Pow2(n - 1)
            /\ ShlIn(r.pb, a[1]).v = a

(* C06: rotations permute cyclically and are mutually inverse *)
C06(ev, r) ==
  ev.op \in {"rotl", "rotr"} =>
    LET a == ev.x.b  n == Len(ev.x.b)  k == ev.a.n  res == r.pb IN
    /\ Len(res) = n
    /\ n = 0 => res = a
    /\ n > 0 /\ k <= n =>
         /\ \A i \in 0..(n - 1) :
              IF ev.op = "rotl" THEN res[((i + k) % n) + 1] = a[i + 1]
              ELSE res[((i + n - k) % n) + 1] = a[i + 1]
         /\ ev.op = "rotl" => Rotr(res, k) = a /\ res = Rotr(a, n - k)
         /\ ev.op = "rotr" => Rotl(res, k) = a /\ res = Rotl(a, n - k)
         /\ PopCount(res) = PopCount(a)
         /\ k = n => res = a

(* C07: edits are list edits (value statements: lengths add up, numeric position of the pieces) *)
C07(ev, r) ==
  LET a == ev.x.b  n == Len(ev.x.b)  y == ev.y.b  p == r.pb IN
  r.o.t # "panic" =>
  /\ ev.op = "push" => Len(p) = n + 1 /\ Val(p) = Val(a) + ev.a.bit * Pow2(n)
  /\ ev.op = "pop" => IF n = 0 THEN r.o = ONone /\ p = a
                      ELSE Len(p) = n - 1 /\ Val(a) = Val(p) + r.o.v * Pow2(n - 1)
  /\ ev.op = "set" => Len(p) = n /\ p[ev.a.i + 1] = ev.a.bit
                      /\ \A j \in 1..n : j # ev.a.i + 1 => p[j] = a[j]
  /\ ev.op = "resize" =>
       /\ Len(p) = ev.a.n
       /\ \A j \in 1..ev.a.n : p[j] = IF j <= n THEN a[j] ELSE ev.a.bit
  /\ ev.op = "truncate" => p = SubSeq(a, 1, Min2(n, ev.a.n))
  /\ ev.op = "sign_extend" =>
       /\ Len(p) = Max2(n, ev.a.n)
       /\ \A j \in 1..Len(p) : p[j] = IF j <= n THEN a[j] ELSE (IF n = 0 THEN 0 ELSE a[n])
       \* the two's complement value is preserved: val - top * 2^len is invariant
       /\ n > 0 => Val(p) - p[Len(p)] * Pow2(Len(p)) = Val(a) - a[n] * Pow2(n)
  /\ ev.op = "append"  => Len(p) = n + Len(y) /\ Val(p) = Val(a) + Val(y) * Pow2(n)
  /\ ev.op = "prepend" => Len(p) = n + Len(y) /\ Val(p) = Val(y) + Val(a) * Pow2(Len(y))
  /\ ev.op = "insert" =>
       LET i == ev.a.i IN
       /\ Len(p) = n + Len(y)
       /\ SubSeq(p, 1, i) = SubSeq(a, 1, i)
       /\ SubSeq(p, i + 1, i + Len(y)) = y
       /\ SubSeq(p, i + Len(y) + 1, Len(p)) = SubSeq(a, i + 1, n)
  /\ ev.op = "extend"  => p = a \o ev.a.bits
  /\ ev.op = "collect" => p = ev.a.bits

(* C08: slicing and splitting partition the bits *)
C08(ev, r) ==
  LET a == ev.x.b  n == Len(ev.x.b) IN
  r.o.t # "panic" =>
  /\ ev.op = "copy_range" =>
       /\ r.pb = a
       /\ Len(r.o.b) = ev.a.j - ev.a.i
       /\ \A t \in 1..(ev.a.j - ev.a.i) : r.o.b[t] = a[ev.a.i + t]
  /\ ev.op = "split_off" => r.pb \o r.o.b = a /\ Len(r.pb) = ev.a.i
  /\ ev.op = "split" => r.o.q \o r.o.b = a /\ Len(r.o.q) = ev.a.i /\ r.pb = a    \* (high, low)
  /\ ev.op = "first" => r.o = IF n = 0 THEN ONone ELSE OBit(a[1])
  /\ ev.op = "last"  => r.o = IF n = 0 THEN ONone ELSE OBit(a[n])

(* C09: comparisons decide the numeric order of the values *)
C09(ev, r) ==
  ev.op \in CmpOps =>
    LET c == Sign(Val(ev.x.b) - Val(ev.y.b)) IN
    /\ Cmp(ev.x.b, ev.y.b) = c
    /\ Cmp(ev.y.b, ev.x.b) = -c                                 \* antisymmetric
    /\ r.o = CmpOut(ev.op, c)
    /\ (c = 0) = (Norm(ev.x.b) = Norm(ev.y.b))

\* transitivity / totality on triples (checked separately over all triples of a small scope)
C09Triple(a, b, c) ==
  /\ Cmp(a, a) = 0
  /\ Cmp(a, b) \in {-1, 0, 1}
  /\ Cmp(a, b) <= 0 /\ Cmp(b, c) <= 0 => Cmp(a, c) <= 0
  /\ Cmp(a, b) = 0 /\ Cmp(b, c) = 0 => Cmp(a, c) = 0

(* C10: what the specified design feeds a hasher is a function of the value *)
HashFeed(b) == Norm(b)
C10(b1, b2) == Cmp(b1, b2) = 0 => HashFeed(b1) = HashFeed(b2)

(* C11: conversions to and from native integers *)
C11(ev, r) ==
  /\ ev.op = "from_int" =>
       LET w == Len(ev.y.b)  v == Val(ev.y.b) IN
       IF IsFixed(ev.x) /\ v >= Pow2(ev.x.c) THEN r.o = OErrCap
       ELSE /\ r.o = OUnit /\ Val(r.pb) = v
            /\ Len(r.pb) = IF IsFixed(ev.x) THEN Min2(w, ev.x.c) ELSE w
  /\ ev.op = "to_int" =>
       LET w == ev.a.n  v == Val(ev.x.b) IN
       IF w < 30 /\ v >= Pow2(w) THEN r.o = OErrCap       \* (2^w itself is only computed for small w)
       ELSE r.o.t = "vec" /\ Len(r.o.b) = w /\ Val(SubSeq(r.o.b, 1, Min2(w, 30))) = v
            /\ \A i \in 31..w : r.o.b[i] = 0
  /\ ev.op = "from_slice" =>
       LET els == ev.a.els  cnt == Len(ev.a.els)  w == ev.a.n IN
       IF IsFixed(ev.x) /\ cnt * w > ev.x.c THEN r.o = OErrCap
       ELSE /\ r.o = OUnit /\ Len(r.pb) = cnt * w
            /\ \A e \in 1..cnt : SubSeq(r.pb, (e - 1) * w + 1, e * w) = els[e]

(* C12: conversions between implementations preserve length and every bit *)
C12(ev, r) ==
  /\ ev.op = "convert" =>
       IF IsFixed(ev.y) /\ Len(ev.x.b) > ev.y.c THEN r.o = OErrCap ELSE r.o = OVec(ev.x.b)
  /\ ev.op \in {"new_inner", "clone"} => r.o = OVec(ev.x.b) /\ r.pb = ev.x.b

(* C13: bytes and streams *)
C13(ev, r) ==
  LET a == ev.x.b  n == Len(ev.x.b) IN
  /\ ev.op \in {"to_vec", "write"} =>
       LET bs == r.o.b IN
       /\ Len(bs) = (n + 7) \div 8
       /\ \A j \in 0..(Len(bs) - 1) :
            LET byte == IF ev.a.e = "L" THEN bs[j + 1] ELSE bs[Len(bs) - j] IN
            byte = Val(SubSeq(a, 8 * j + 1, Min2(8 * j + 8, n)))
       \* from_bytes(to_vec(v)) is v zero-extended to whole bytes; read(write(v)) = v
       /\ FromBytes(bs, ev.a.e) = Fit(a, 8 * Len(bs))
       /\ Fit(FromBytes(bs, ev.a.e), n) = a
  /\ ev.op = "from_bytes" /\ r.o = OUnit =>
       /\ Len(r.pb) = 8 * Len(ev.a.bytes)
       /\ ToBytes(r.pb, ev.a.e) = ev.a.bytes
  /\ ev.op = "from_bytes" => (r.o = OErrCap) = (IsFixed(ev.x) /\ 8 * Len(ev.a.bytes) > ev.x.c)
  /\ ev.op = "read" =>
       LET nb == (ev.a.n + 7) \div 8 IN
       IF (IsFixed(ev.x) /\ ev.a.n > ev.x.c) \/ Len(ev.a.bytes) < nb THEN r.o.t = "err"
       ELSE /\ r.o = ONum(nb) /\ Len(r.pb) = ev.a.n
            \* surplus high bits of the most significant byte are discarded
            /\ r.pb = Fit(FromBytes(SubSeq(ev.a.bytes, 1, nb), ev.a.e), ev.a.n)
            /\ ToBytes(r.pb, ev.a.e)
                 = ToBytes(Fit(FromBytes(SubSeq(ev.a.bytes, 1, nb), ev.a.e), ev.a.n), ev.a.e)

(* C14: formatting equals Rust's formatting of the same unsigned integer *)
DigitVal == [c \in {"0","1","2","3","4","5","6","7","8","9","a","b","c","d","e","f","A","B","C","D","E","F"} |->
               IF c \in DOMAIN HexVal THEN HexVal[c] ELSE 0]
BaseOf(b) == CASE b = "d" -> 10 [] b = "b" -> 2 [] b = "o" -> 8 [] b = "x" -> 16 [] b = "X" -> 16
DigitsVal(ds, base) == FoldLeft(LAMBDA acc, c : acc * base + DigitVal[c], 0, ds)
C14(ev, r) ==
  ev.op = "fmt" =>
    LET f == ev.a.fmt  ds == Digits(ev.x.b, f.base)  s == r.o.s
        extra == (IF f.plus = 1 THEN 1 ELSE 0) + (IF f.alt = 1 THEN Len(Prefix(f.base)) ELSE 0) IN
    /\ DigitsVal(ds, BaseOf(f.base)) = Val(ev.x.b)                     \* digits evaluate back to the value
    /\ Len(ds) >= 1 /\ (Len(ds) > 1 => ds[1] # "0")                    \* minimal digits, "0" for zero / empty
    /\ Digits(Norm(ev.x.b), f.base) = ds                               \* depends on the value only
    /\ Len(s) = Max2(Len(ds) + extra, f.width)                         \* padded to the width, never truncated
    /\ f.width < 0 => s = (IF f.plus = 1 THEN <<"+">> ELSE <<>>) \o (IF f.alt = 1 THEN Prefix(f.base) ELSE <<>>) \o ds

(* C15: parsing accepts exactly the digit strings and inverts formatting *)
C15(ev, r) ==
  /\ ev.op = "from_binary" =>
       LET cs == ev.a.chars IN
       IF IsFixed(ev.x) /\ Len(cs) > ev.x.c THEN r.o = OErrCap
       ELSE IF \E i \in 1..Len(cs) : cs[i] \notin {"0", "1"}
       THEN r.o.t = "err" /\ r.o.s = <<"fmt">>
            /\ cs[r.o.v + 1] \notin {"0", "1"} /\ \A i \in 1..r.o.v : cs[i] \in {"0", "1"}
       ELSE /\ r.o = OUnit /\ Len(r.pb) = Len(cs)
            /\ \A i \in 1..Len(cs) : r.pb[Len(cs) + 1 - i] = (IF cs[i] = "1" THEN 1 ELSE 0)
            /\ Cmp(BinBits(Digits(r.pb, "b")), r.pb) = 0               \* parse(format(v)) has the value of v
  /\ ev.op = "from_hex" =>
       LET cs == ev.a.chars IN
       IF IsFixed(ev.x) /\ 4 * Len(cs) > ev.x.c THEN r.o = OErrCap
       ELSE IF \E i \in 1..Len(cs) : cs[i] \notin DOMAIN HexVal
       THEN r.o.t = "err" /\ r.o.s = <<"fmt">>
            /\ cs[r.o.v + 1] \notin DOMAIN HexVal /\ \A i \in 1..r.o.v : cs[i] \in DOMAIN HexVal
       ELSE /\ r.o = OUnit /\ Len(r.pb) = 4 * Len(cs)
            /\ Val(r.pb) = DigitsVal(cs, 16)
            /\ Cmp(HexBits(Digits(r.pb, "x")), r.pb) = 0
            /\ Cmp(HexBits(Digits(r.pb, "X")), r.pb) = 0

(* C16: bit-count queries *)
C16(ev, r) ==
  LET a == ev.x.b  n == Len(ev.x.b)
      ones == {i \in 1..n : a[i] = 1}  zeros == {i \in 1..n : a[i] = 0}
      MaxS(S) == CHOOSE m \in S : \A t \in S : t <= m
      MinS(S) == CHOOSE m \in S : \A t \in S : t >= m IN
  /\ ev.op = "leading_zeros"  => r.o.v = IF ones = {} THEN n ELSE n - MaxS(ones)
  /\ ev.op = "leading_ones"   => r.o.v = IF zeros = {} THEN n ELSE n - MaxS(zeros)
  /\ ev.op = "trailing_zeros" => r.o.v = IF ones = {} THEN n ELSE MinS(ones) - 1
  /\ ev.op = "trailing_ones"  => r.o.v = IF zeros = {} THEN n ELSE MinS(zeros) - 1
  /\ ev.op = "significant_bits" => r.o.v = IF ones = {} THEN 0 ELSE MaxS(ones)
  /\ ev.op = "is_zero" => r.o = OBool(ones = {})
  /\ LeadingZeros(a) + Sig(a) = n /\ (IsZero(a) <=> Sig(a) = 0)
  /\ LeadingZeros(a) <= n /\ LeadingOnes(a) <= n /\ TrailingZeros(a) <= n /\ TrailingOnes(a) <= n

(* C18 / C19 are state invariants and outcome classes: see Bva!LenLeCap, Bva!CapOk *)
C19(ev, r) ==
  LET n == Len(ev.x.b)  grow ==
        CASE ev.op = "push" -> n + 1
          [] ev.op \in {"resize", "sign_extend"} -> Max2(n, ev.a.n)
          [] ev.op \in {"append", "prepend", "insert"} -> n + Len(ev.y.b)
          [] ev.op = "extend" -> n + Len(ev.a.bits)
          [] ev.op \in {"zeros", "ones", "repeat"} -> ev.a.n
          [] ev.op = "collect" -> Len(ev.a.bits)
          [] OTHER -> 0
  IN ev.op \in {"push", "resize", "sign_extend", "append", "prepend", "insert", "extend",
                "zeros", "ones", "repeat", "collect"} =>
       /\ (r.o.t = "panic") = (IsFixed(ev.x) /\ grow > ev.x.c)
       /\ IsFixed(ev.x) => Len(r.pb) <= ev.x.c

(* C20: the effect of a call is independent of its form *)
C20(ev, r, apiOf(_)) ==
  ev.op \in BinOps \cup ShiftOps =>
    \A f \in {"vv", "vr", "rv", "rr", "av", "ar"} :
      LET e2 == [ev EXCEPT !.f = f]  r2 == apiOf(e2) IN
      /\ ResOf(e2, r2) = ResOf(ev, r) \/ (r.o.t = "panic" /\ r2.o.t = "panic")
      /\ ~IsAssignForm(f) => r2.pb = ev.x.b
=============================================================================
