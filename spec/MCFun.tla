------------------------------- MODULE MCFun -------------------------------
(***************************************************************************)
(* Bounded "all inputs" models of the function-contract properties.        *)
(*                                                                         *)
(* One Bva!Call from the initial state, with the event drawn from the      *)
(* COMPLETE space of subject / operand values up to the bounds Ls / Lo:    *)
(* TLC enumerates every transition, evaluates the property's own statement *)
(* (Props!Cxx) on it as an invariant, and prints the transition            *)
(* ([k |-> "T", ev, r]) for replay on the real code.  The operand is drawn *)
(* inside Next so that the enumeration runs on all workers.                *)
(* The configuration files (MC_Cxx_<tier>.cfg) choose NEXT / INVARIANT and *)
(* the bounds.                                                             *)
(***************************************************************************)
EXTENDS Props, Json

CONSTANTS Ls,    \* subject length bound
          Lo     \* operand length bound

VARIABLE last    \* [ph |-> 0] initially, [ph |-> 1, a |-> seed] after the seed (usually the subject's
                 \* bits) has been chosen, [ph |-> 2, ev, r] after the call: the transition taken.
                 \* The intermediate state only spreads the enumeration over TLC's workers.

mvars == <<regs, iter, last>>

BitsLen(k) == [1..k -> {0, 1}]
AllBits(lo, hi) == UNION {BitsLen(k) : k \in lo..hi}

AnyX(b)      == [k |-> "*", cl |-> "*", c |-> 0, b |-> b]
ClsX(cls, b) == [k |-> "*", cl |-> cls.cl, c |-> cls.c, b |-> b]
NoY          == [k |-> "-", cl |-> "-", c |-> 0, b |-> <<>>]
VecY(b)      == [k |-> "*", cl |-> "*", c |-> 0, b |-> b]
IntY(ty, b)  == [k |-> ty, cl |-> "I", c |-> Len(b), b |-> b]
NoA          == [z |-> 0]
\* the classes of subject a capacity-sensitive operation is specified for
XClasses == {[cl |-> "F", c |-> 8], [cl |-> "F", c |-> 16], [cl |-> "F", c |-> 24], [cl |-> "D", c |-> 0], [cl |-> "A", c |-> 0]}

Ev(op, f, x, y, a) == [op |-> op, f |-> f, x |-> x, y |-> y, a |-> a, dbg |-> 1]

MCInit == BvaInit /\ last = [ph |-> 0]

CapAfter(ev, r) == IF IsFixed(ev.x) THEN ev.x.c ELSE Len(r.pb)

Fire(ev) ==
  LET r == Api(ev) IN
  /\ last.ph = 1
  /\ Call("s", ev, CapAfter(ev, r))
  /\ last' = [ph |-> 2, ev |-> ev, r |-> r]
  /\ PrintT(ToJson([k |-> "T", ev |-> ev, r |-> r]))

\* choose the seed, then make one call that depends on it
Seeded(Seeds, Calls(_)) ==
  \/ /\ last.ph = 0
     /\ \E a \in Seeds : last' = [ph |-> 1, a |-> a]
     /\ UNCHANGED <<regs, iter>>
  \/ /\ last.ph = 1
     /\ Calls(last.a)

\* the same with a tag, for models whose seeds are of several (incomparable) shapes
SeededT(tag, Seeds, Calls(_)) ==
  \/ /\ last.ph = 0
     /\ \E a \in Seeds : last' = [ph |-> 1, a |-> a, tag |-> tag]
     /\ UNCHANGED <<regs, iter>>
  \/ /\ last.ph = 1 /\ "tag" \in DOMAIN last /\ last.tag = tag
     /\ Calls(last.a)

Holds(P(_, _)) == last.ph = 2 => P(last.ev, last.r)

(***************************************************************************)
(* C01 add / sub / mul                                                     *)
(***************************************************************************)
Calls_C01(a) ==
  \/ \E op \in {"add", "sub", "mul"}, b \in AllBits(0, Lo) :
       Fire(Ev(op, "rr", AnyX(a), VecY(b), NoA))
  \/ \E op \in {"add", "sub", "mul"}, v \in BitsLen(8) :
       /\ Len(a) <= Ls - 2
       /\ Fire(Ev(op, "rr", AnyX(a), IntY("u8", v), NoA))
Next_C01 == Seeded(AllBits(0, Ls), Calls_C01)
Inv_C01 == Holds(C01)

(***************************************************************************)
(* C02 div / rem / div_rem                                                 *)
(***************************************************************************)
Calls_C02(a) ==
  \/ \E op \in {"div", "rem"}, b \in AllBits(0, Lo) :
       Fire(Ev(op, "rr", AnyX(a), VecY(b), NoA))
  \/ \E b \in AllBits(0, Lo) :
       Fire(Ev("div_rem", "", AnyX(a), VecY(b), NoA))
  \/ \E op \in {"div", "rem"}, v \in BitsLen(8) :
       /\ Len(a) <= Ls - 2
       /\ Fire(Ev(op, "rr", AnyX(a), IntY("u8", v), NoA))
Next_C02 == Seeded(AllBits(0, Ls), Calls_C02)
Inv_C02 == Holds(C02)

(***************************************************************************)
(* C04 and / or / xor / not                                                *)
(***************************************************************************)
Calls_C04(a) ==
  \/ \E op \in {"and", "or", "xor"}, b \in AllBits(0, Lo) :
       /\ Len(a) <= Ls
       /\ Fire(Ev(op, "rr", AnyX(a), VecY(b), NoA))
  \/ \E op \in {"and", "or", "xor"}, v \in BitsLen(8) :
       /\ Len(a) <= Ls - 2
       /\ Fire(Ev(op, "rr", AnyX(a), IntY("u8", v), NoA))
  \/ Fire(Ev("not", "r", AnyX(a), NoY, NoA))
Next_C04 == Seeded(AllBits(0, Ls + 2), Calls_C04)
Inv_C04 == Holds(C04)

(***************************************************************************)
(* C05 shifts: every amount 0..Ls+2 and "huge" (BIG stands for every       *)
(* amount >= 2^30, instantiated by the harness with the extremes of each   *)
(* amount type)                                                            *)
(***************************************************************************)
Calls_C05(a) ==
  \/ \E op \in {"shl", "shr"}, k \in (0..(Ls + 2)) \cup {BIG} :
       Fire(Ev(op, "rr", AnyX(a), NoY, [n |-> k]))
  \/ \E op \in {"shl_in", "shr_in"}, b \in {0, 1} :
       Fire(Ev(op, "", AnyX(a), NoY, [bit |-> b]))
Next_C05 == Seeded(AllBits(0, Ls), Calls_C05)
Inv_C05 == Holds(C05)

(***************************************************************************)
(* C06 rotations, all k in 0..n                                            *)
(***************************************************************************)
Calls_C06(a) ==
  \E op \in {"rotl", "rotr"}, k \in 0..Len(a) :
    Fire(Ev(op, "", AnyX(a), NoY, [n |-> k]))
Next_C06 == Seeded(AllBits(0, Ls), Calls_C06)
Inv_C06 == Holds(C06)

(***************************************************************************)
(* C07 every edit from every small vector (depth 1; histories: MCHist)     *)
(***************************************************************************)
Calls_C07(a) ==
    \/ \E b \in {0, 1} : Fire(Ev("push", "", AnyX(a), NoY, [bit |-> b]))
    \/ Fire(Ev("pop", "", AnyX(a), NoY, NoA))
    \/ \E i \in 0..(Len(a) - 1), b \in {0, 1} : Fire(Ev("set", "", AnyX(a), NoY, [i |-> i, bit |-> b]))
    \/ \E n \in 0..(Ls + 3), b \in {0, 1} : Fire(Ev("resize", "", AnyX(a), NoY, [n |-> n, bit |-> b]))
    \/ \E n \in 0..(Ls + 1) : Fire(Ev("truncate", "", AnyX(a), NoY, [n |-> n]))
    \/ \E n \in 0..(Ls + 3) : Fire(Ev("sign_extend", "", AnyX(a), NoY, [n |-> n]))
    \/ \E y \in AllBits(0, Lo) :
         \/ Fire(Ev("append", "", AnyX(a), VecY(y), NoA))
         \/ Fire(Ev("prepend", "", AnyX(a), VecY(y), NoA))
         \/ \E i \in 0..Len(a) : Fire(Ev("insert", "", AnyX(a), VecY(y), [i |-> i]))
         \/ Fire(Ev("extend", "", AnyX(a), NoY, [bits |-> y]))
    \/ Fire(Ev("collect", "", AnyX(<<>>), NoY, [bits |-> a]))
Next_C07 == Seeded(AllBits(0, Ls), Calls_C07)
Inv_C07 == Holds(C07)

(***************************************************************************)
(* C08 slicing / splitting: all (s, e), all split points                   *)
(***************************************************************************)
Calls_C08(a) ==
    \/ \E s \in 0..Len(a) : \E e \in s..Len(a) : Fire(Ev("copy_range", "", AnyX(a), NoY, [i |-> s, j |-> e]))
    \/ \E i \in 0..Len(a) : Fire(Ev("split_off", "", AnyX(a), NoY, [i |-> i]))
    \/ \E i \in 0..Len(a) : Fire(Ev("split", "", AnyX(a), NoY, [i |-> i]))
    \/ Fire(Ev("first", "", AnyX(a), NoY, NoA))
    \/ Fire(Ev("last", "", AnyX(a), NoY, NoA))
Next_C08 == Seeded(AllBits(0, Ls), Calls_C08)
Inv_C08 == Holds(C08)

(***************************************************************************)
(* C09 comparisons: all pairs, all operators; order axioms on all triples  *)
(***************************************************************************)
Calls_C09(a) ==
  \E op \in CmpOps \ {"cmp"}, b \in AllBits(0, Lo) :
    Fire(Ev(op, "", AnyX(a), VecY(b), NoA))
Next_C09 == Seeded(AllBits(0, Ls), Calls_C09)
Inv_C09 == Holds(C09)
\* checked once, as an assumption of the model (constant level): all triples up to 4 bits
ASSUME C09Axioms == \A a, b, c \in AllBits(0, 4) : C09Triple(a, b, c)
ASSUME C10Design == \A a, b \in AllBits(0, 6) : C10(a, b)

(***************************************************************************)
(* C11 native integers (seed: the class of the target / the subject bits)  *)
(***************************************************************************)
SliceEls == {Zeros(8), Ones(8), <<1,0,0,0,0,0,0,0>>, <<0,1,0,1,1,0,1,0>>, <<0,0,0,0,0,0,0,1>>}
CallsInto_C11(cls) ==
  \/ \E v \in BitsLen(8) : Fire(Ev("from_int", "", ClsX(cls, <<>>), IntY("u8", v), NoA))
  \/ \E lo \in BitsLen(4), hi \in BitsLen(4), mid \in {Zeros(8), Ones(8)} :
       Fire(Ev("from_int", "", ClsX(cls, <<>>), IntY("u16", lo \o mid \o hi), NoA))
  \/ \E els \in UNION {[1..k -> SliceEls] : k \in 0..3} :
       Fire(Ev("from_slice", "", ClsX(cls, <<>>), NoY, [els |-> els, n |-> 8, ity |-> "u8"]))
CallsFrom_C11(a) ==
  \E w \in {8, 16, 32, 64, 128} : Fire(Ev("to_int", "", AnyX(a), NoY, [n |-> w]))
Next_C11 == SeededT("into", XClasses, CallsInto_C11) \/ SeededT("from", AllBits(0, Ls), CallsFrom_C11)
Inv_C11 == Holds(C11)

(***************************************************************************)
(* C12 conversions between implementations                                 *)
(***************************************************************************)
Calls_C12(a) ==
    \/ \E t \in XClasses : Fire(Ev("convert", "", AnyX(a), [k |-> "*", cl |-> t.cl, c |-> t.c, b |-> <<>>], NoA))
    \/ Fire(Ev("new_inner", "", AnyX(a), NoY, NoA))
    \/ Fire(Ev("clone", "", AnyX(a), NoY, NoA))
Next_C12 == Seeded(AllBits(0, Ls), Calls_C12)
Inv_C12 == Holds(C12)

(***************************************************************************)
(* C13 bytes and streams (seed: subject bits, or a byte string)            *)
(***************************************************************************)
ByteSet == {0, 1, 128, 255, 165, 90}
ByteSeqs(n) == UNION {[1..k -> ByteSet] : k \in 0..n}
Calls_C13(s) ==
  IF s \in ByteSeqs(3) /\ (s = <<>> \/ s[1] \notin {0, 1} \/ Len(s) > Ls)
  THEN \/ \E cls \in XClasses, e \in {"L", "B"} :
            Fire(Ev("from_bytes", "", ClsX(cls, <<>>), NoY, [bytes |-> s, e |-> e]))
       \/ \E cls \in XClasses, e \in {"L", "B"}, n \in 0..26 :
            Fire(Ev("read", "", ClsX(cls, <<>>), NoY, [bytes |-> s, e |-> e, n |-> n]))
       \/ /\ s = <<>>
          /\ \E e \in {"L", "B"}, op \in {"to_vec", "write"} : Fire(Ev(op, "", AnyX(s), NoY, [e |-> e]))
  ELSE \E e \in {"L", "B"}, op \in {"to_vec", "write"} : Fire(Ev(op, "", AnyX(s), NoY, [e |-> e]))
\* byte strings starting with 0 / 1 coincide with bit vectors: those are used as subjects of to_vec,
\* and the byte strings driven through from_bytes / read start with a byte >= 128 (or are empty)
Next_C13 == Seeded(AllBits(0, Ls) \cup {s \in ByteSeqs(3) : s = <<>> \/ s[1] >= 90}, Calls_C13)
Inv_C13 == Holds(C13)

(***************************************************************************)
(* C14 formatting: every value x a matrix of specifications                *)
(***************************************************************************)
Widths == {0, 5, Ls + 6}
FmtSpecs ==
  {[base |-> b, alt |-> al, plus |-> pl, zero |-> 0, width |-> -1, fill |-> " ", align |-> ""] :
      b \in {"d", "b", "o", "x", "X"}, al \in {0, 1}, pl \in {0, 1}}
  \cup
  {[base |-> b, alt |-> al, plus |-> pl, zero |-> z, width |-> w, fill |-> fa[1], align |-> fa[2]] :
      b \in {"d", "b", "o", "x", "X"}, al \in {0, 1}, pl \in {0, 1}, z \in {0, 1}, w \in Widths,
      fa \in {<<" ", "">>, <<" ", "<">>, <<"*", "^">>, <<"0", ">">>, <<"*", ">">>}}
Calls_C14(a) == \E f \in FmtSpecs : Fire(Ev("fmt", "", AnyX(a), NoY, [fmt |-> f]))
Next_C14 == Seeded(AllBits(0, Ls), Calls_C14)
Inv_C14 == Holds(C14)

(***************************************************************************)
(* C15 parsing: all strings over small alphabets (seed: the string)        *)
(***************************************************************************)
BinAlphabet == {"0", "1", "x", "+"}
HexAlphabet == {"0", "9", "a", "F", "g", "é", "+"}
Strings(S, n) == UNION {[1..k -> S] : k \in 0..n}
\* too-long-and-invalid strings are unspecified: valid strings for every class, invalid ones only where they fit
Calls_C15(cs) ==
  \/ /\ \A i \in 1..Len(cs) : cs[i] \in BinAlphabet
     /\ \E cls \in XClasses :
          /\ (IsFixed(cls) /\ Len(cs) > cls.c) => \A i \in 1..Len(cs) : IsBinChar(cs[i])
          /\ Fire(Ev("from_binary", "", ClsX(cls, <<>>), NoY, [chars |-> cs]))
  \/ /\ \A i \in 1..Len(cs) : cs[i] \in HexAlphabet
     /\ Len(cs) <= Lo
     /\ \E cls \in XClasses :
          /\ (IsFixed(cls) /\ 4 * Len(cs) > cls.c) => \A i \in 1..Len(cs) : IsHexChar(cs[i])
          /\ Fire(Ev("from_hex", "", ClsX(cls, <<>>), NoY, [chars |-> cs]))
Next_C15 == Seeded(Strings(BinAlphabet, Ls) \cup {cs \in Strings({"0", "1"}, Ls + 4) : Len(cs) > Ls}
                   \cup Strings(HexAlphabet, Lo), Calls_C15)
Inv_C15 == Holds(C15)

(***************************************************************************)
(* C16 bit-count queries                                                   *)
(***************************************************************************)
Calls_C16(a) ==
  \E op \in {"leading_zeros", "leading_ones", "trailing_zeros", "trailing_ones", "significant_bits", "is_zero"} :
    Fire(Ev(op, "", AnyX(a), NoY, NoA))
Next_C16 == Seeded(AllBits(0, Ls), Calls_C16)
Inv_C16 == Holds(C16)

(***************************************************************************)
(* C19 overflow of a fixed capacity is signalled (seed: the class)         *)
(***************************************************************************)
Calls_C19(cls) ==
    \/ \E n \in {0, 1, 7, 8, 9, 15, 16, 17, 24, 25}, op \in {"zeros", "ones"} : Fire(Ev(op, "", ClsX(cls, <<>>), NoY, [n |-> n]))
    \/ \E n \in {6, 7, 8, 14, 15, 16} :
         /\ ~IsFixed(cls) \/ n <= cls.c
         /\ \/ \E b \in {0, 1} : Fire(Ev("push", "", ClsX(cls, Ones(n)), NoY, [bit |-> b]))
            \/ \E m \in {7, 8, 9, 15, 16, 17, 18, 30}, b \in {0, 1} : Fire(Ev("resize", "", ClsX(cls, Ones(n)), NoY, [n |-> m, bit |-> b]))
            \/ \E m \in {7, 8, 9, 15, 16, 17, 18, 30} : Fire(Ev("sign_extend", "", ClsX(cls, Ones(n)), NoY, [n |-> m]))
            \/ \E y \in {<<>>, <<1>>, <<0, 1>>, <<1, 1, 1>>, Ones(9)} :
                 \/ Fire(Ev("append", "", ClsX(cls, Ones(n)), VecY(y), NoA))
                 \/ Fire(Ev("prepend", "", ClsX(cls, Ones(n)), VecY(y), NoA))
                 \/ Fire(Ev("insert", "", ClsX(cls, Ones(n)), VecY(y), [i |-> n \div 2]))
                 \/ Fire(Ev("extend", "", ClsX(cls, Ones(n)), NoY, [bits |-> y]))
    \/ \E n \in {7, 8, 9, 16, 17} : Fire(Ev("collect", "", ClsX(cls, <<>>), NoY, [bits |-> Ones(n)]))
Next_C19 == Seeded({[cl |-> "F", c |-> 8], [cl |-> "F", c |-> 16], [cl |-> "D", c |-> 0], [cl |-> "A", c |-> 0]}, Calls_C19)
Inv_C19 == Holds(C19) /\ LenLeCap

(***************************************************************************)
(* C20 the effect of an operator is independent of its form                *)
(***************************************************************************)
Calls_C20(a) ==
  \/ \E op \in BinOps, f \in {"vv", "vr", "rv", "rr", "av", "ar"}, b \in AllBits(0, Lo) :
       Fire(Ev(op, f, AnyX(a), VecY(b), NoA))
  \/ \E op \in ShiftOps, f \in {"vv", "vr", "rv", "rr", "av", "ar"}, k \in 0..(Ls + 1) :
       Fire(Ev(op, f, AnyX(a), NoY, [n |-> k]))
Next_C20 == Seeded(AllBits(0, Ls), Calls_C20)
Inv_C20 == last.ph = 2 => C20(last.ev, last.r, Api)
=============================================================================
