-------------------------------- MODULE Bva --------------------------------
(***************************************************************************)
(* The bva state machine.                                                  *)
(*                                                                         *)
(* State: a set of registers, each holding one bit vector                  *)
(*     [cl |-> class, c |-> capacity, b |-> bits]                          *)
(* with class "F" (fixed capacity c), "D" (dynamic) or "A" (auto), a live  *)
(* iterator (the list of bits it has still to yield and its direction) and *)
(* the per-class history of hash streams.  The abstract state of a vector  *)
(* is NOTHING BUT its bits (and a capacity number): that is property C03.  *)
(*                                                                         *)
(* One action per public API entry point.  Every action is described by an *)
(* EVENT record (the same record the Rust harness logs and replays):       *)
(*   op  operation name            f   operator form ("rr","av",...)       *)
(*   x   subject before the call   y   operand vector / native integer     *)
(*   a   scalar arguments          dbg 1 iff debug assertions are compiled *)
(* and Api(ev) gives the effect allowed by the specification:              *)
(*   [pb |-> bits of the subject afterwards, o |-> returned value]         *)
(* Api is a function of the bits of x and y only.                          *)
(***************************************************************************)
EXTENDS BitSeq, TLC

BIG == 1073741824          \* 2^30: arguments >= BIG are logged as BIG

(***************************************************************************)
(* Returned values: one record shape for everything.                       *)
(***************************************************************************)
Out(t, b, v, q, s) == [t |-> t, b |-> b, v |-> v, q |-> q, s |-> s]
OUnit        == Out("unit", <<>>, 0, <<>>, <<>>)
OVec(b)      == Out("vec", b, 0, <<>>, <<>>)
OBit(v)      == Out("bit", <<>>, v, <<>>, <<>>)
ONone        == Out("none", <<>>, 0, <<>>, <<>>)
ONum(v)      == Out("num", <<>>, v, <<>>, <<>>)
OBool(p)     == Out("bool", <<>>, IF p THEN 1 ELSE 0, <<>>, <<>>)
OOrd(v)      == Out("ord", <<>>, v, <<>>, <<>>)
OBytes(bs)   == Out("bytes", bs, 0, <<>>, <<>>)
OStr(cs)     == Out("str", <<>>, 0, <<>>, cs)
OPair(b, q)  == Out("pair", b, 0, q, <<>>)
OErrCap      == Out("err", <<>>, 0, <<>>, <<"cap">>)
OErrFmt(i)   == Out("err", <<>>, i, <<>>, <<"fmt">>)
OErrIo       == Out("err", <<>>, 0, <<>>, <<"io">>)
OPanic       == Out("panic", <<>>, 0, <<>>, <<>>)

R(pb, o) == [pb |-> pb, o |-> o]

IsFixed(x)  == x.cl = "F"
\* a vector of class x.cl / capacity x.c can hold n bits
Fits(x, n)  == ~IsFixed(x) \/ n <= x.c

(***************************************************************************)
(* Constructors: the subject register is (re)bound to the new vector; on   *)
(* failure it keeps its previous (empty) contents.                         *)
(***************************************************************************)
ApiCtor(ev) ==
  LET x == ev.x  a == ev.a  op == ev.op IN
  CASE op = "zeros"  -> IF Fits(x, a.n) THEN R(Zeros(a.n), OUnit) ELSE R(x.b, OPanic)
    [] op = "ones"   -> IF Fits(x, a.n) THEN R(Ones(a.n), OUnit) ELSE R(x.b, OPanic)
    [] op = "repeat" -> IF Fits(x, a.n) THEN R(Fill(a.bit, a.n), OUnit) ELSE R(x.b, OPanic)
    [] op = "with_capacity" -> R(<<>>, OUnit)
    [] op = "from_binary" ->
         IF ~Fits(x, Len(a.chars)) THEN R(x.b, OErrCap)
         ELSE LET bad == FirstBad(a.chars, IsBinChar) IN
              IF bad >= 0 THEN R(x.b, OErrFmt(bad)) ELSE R(BinBits(a.chars), OUnit)
    [] op = "from_hex" ->
         IF ~Fits(x, 4 * Len(a.chars)) THEN R(x.b, OErrCap)
         ELSE LET bad == FirstBad(a.chars, IsHexChar) IN
              IF bad >= 0 THEN R(x.b, OErrFmt(bad)) ELSE R(HexBits(a.chars), OUnit)
    [] op = "from_bytes" ->
         IF ~Fits(x, 8 * Len(a.bytes)) THEN R(x.b, OErrCap)
         ELSE R(FromBytes(a.bytes, a.e), OUnit)
    [] op = "read" ->        \* a.bytes is the whole stream, a.n the number of bits wanted
         LET nb == NumBytes(a.n) IN
         IF ~Fits(x, a.n) \/ Len(a.bytes) < nb THEN R(x.b, OErrIo)
         ELSE R(Fit(FromBytes(SubSeq(a.bytes, 1, nb), a.e), a.n), ONum(nb))   \* nb bytes consumed
    [] op = "from_int" ->    \* ev.y is the native integer, Len(ev.y.b) its width
         IF IsFixed(x) /\ Sig(ev.y.b) > x.c THEN R(x.b, OErrCap)
         ELSE R(Fit(ev.y.b, IF IsFixed(x) THEN Min2(Len(ev.y.b), x.c) ELSE Len(ev.y.b)), OUnit)
    [] op = "from_slice" ->  \* a.els the elements (bit lists of equal width), element 0 least significant
         LET all == FlattenSeq(a.els) IN
         IF ~Fits(x, Len(all)) THEN R(x.b, OErrCap) ELSE R(all, OUnit)
    [] op = "collect" ->     \* FromIterator<Bit>: pushes one by one
         IF Fits(x, Len(a.bits)) THEN R(a.bits, OUnit) ELSE R(x.b, OPanic)

CtorOps == {"zeros", "ones", "repeat", "with_capacity", "from_binary", "from_hex",
            "from_bytes", "read", "from_int", "from_slice", "collect"}

(***************************************************************************)
(* Observers: the subject is unchanged.                                    *)
(***************************************************************************)
CmpOut(op, c) ==
  CASE op = "eq" -> OBool(c = 0)  [] op = "ne" -> OBool(c # 0)
    [] op = "lt" -> OBool(c < 0)  [] op = "le" -> OBool(c <= 0)
    [] op = "gt" -> OBool(c > 0)  [] op = "ge" -> OBool(c >= 0)
    [] op = "pcmp" -> OOrd(c)     [] op = "cmp" -> OOrd(c)
CmpOps == {"eq", "ne", "lt", "le", "gt", "ge", "pcmp", "cmp"}

ApiObs(ev) ==
  LET x == ev.x  a == ev.a  op == ev.op  b == ev.x.b  n == Len(ev.x.b) IN
  CASE op = "len"       -> R(b, ONum(n))
    [] op = "is_empty"  -> R(b, OBool(n = 0))
    [] op = "get"       -> IF a.i < n THEN R(b, OBit(b[a.i + 1])) ELSE R(b, OPanic)  \* only driven with dbg = 1
    [] op = "first"     -> R(b, IF n = 0 THEN ONone ELSE OBit(b[1]))
    [] op = "last"      -> R(b, IF n = 0 THEN ONone ELSE OBit(b[n]))
    [] op = "to_vec"    -> R(b, OBytes(ToBytes(b, a.e)))
    [] op = "write"     -> R(b, OBytes(ToBytes(b, a.e)))
    [] op = "is_zero"   -> R(b, OBool(IsZero(b)))
    [] op = "leading_zeros"    -> R(b, ONum(LeadingZeros(b)))
    [] op = "leading_ones"     -> R(b, ONum(LeadingOnes(b)))
    [] op = "trailing_zeros"   -> R(b, ONum(TrailingZeros(b)))
    [] op = "trailing_ones"    -> R(b, ONum(TrailingOnes(b)))
    [] op = "significant_bits" -> R(b, ONum(Sig(b)))
    [] op = "fmt"       -> R(b, OStr(Format(b, a.fmt)))
    [] op = "to_int"    -> R(b, IF Sig(b) > a.n THEN OErrCap ELSE OVec(Fit(b, a.n)))   \* a.n = width of the integer type
    [] op = "convert"   -> R(b, IF Fits(ev.y, n) THEN OVec(b) ELSE OErrCap)            \* ev.y = target class / capacity
    [] op = "new_inner" -> R(b, OVec(b))                                              \* new(into_inner(x))
    [] op = "iter_collect" -> R(b, OVec(b))
    [] op = "clone"     -> R(b, OVec(b))
    [] op \in CmpOps    -> R(b, CmpOut(op, Cmp(b, ev.y.b)))
    \* a HashSet holding x finds y iff they are equal (Hash consistent with Eq, C10)
    [] op = "hs_contains" -> R(b, OBool(Cmp(b, ev.y.b) = 0))
    \* Bit <-> bool / integer (C11): a.nz = 1 iff the integer is not zero; a.n the bit for bit_to_int
    [] op = "bit_from_int" -> R(b, OBit(a.nz))
    [] op = "bit_to_int"   -> R(b, OBit(a.n))
    \* ---- behaviour beyond the twenty listed properties ----
    \* a clone is independent of its source: editing the clone leaves the source alone
    [] op = "clone_push"   -> R(b, OVec(Append(b, a.bit)))
    \* write() to a writer that fails after a.n bytes: the error is propagated, nothing panics
    [] op = "write_fail"   -> R(b, IF a.n < NumBytes(n) THEN OErrIo ELSE OBytes(ToBytes(b, a.e)))
    \* write() to a writer that accepts at most a.n bytes per call: everything arrives, in order
    [] op = "write_chunk"  -> R(b, OBytes(ToBytes(b, a.e)))
    \* Display of a Bit is "0" / "1"; Debug of a vector and Display of the error type never panic
    [] op = "bit_display"  -> R(b, OStr(IF a.bit = 1 THEN <<"1">> ELSE <<"0">>))
    [] op = "debug_fmt"    -> R(b, OBool(TRUE))
    [] op = "err_display"  -> R(b, OBool(TRUE))
    \* Bvd::new(data, length) asserts that the data can hold length bits
    [] op = "bvd_new"      -> R(b, IF a.n <= 64 * a.i THEN ONum(a.n) ELSE OPanic)

ObsOps == {"len", "is_empty", "get", "first", "last", "to_vec", "write", "is_zero",
           "leading_zeros", "leading_ones", "trailing_zeros", "trailing_ones",
           "significant_bits", "fmt", "to_int", "convert", "new_inner", "iter_collect",
           "clone", "hs_contains", "bit_from_int", "bit_to_int", "clone_push", "write_fail", "write_chunk",
           "bit_display", "debug_fmt", "err_display", "bvd_new"} \cup CmpOps

(***************************************************************************)
(* Edits, slicing, shifts by one, rotations, capacity management           *)
(***************************************************************************)
ApiEdit(ev) ==
  LET x == ev.x  a == ev.a  op == ev.op  b == ev.x.b  n == Len(ev.x.b)  yb == ev.y.b IN
  CASE op = "set"      -> IF a.i < n THEN R(SetBit(b, a.i, a.bit), OUnit) ELSE R(b, OPanic)
    [] op = "push"     -> IF Fits(x, n + 1) THEN R(Append(b, a.bit), OUnit) ELSE R(b, OPanic)
    [] op = "pop"      -> IF n = 0 THEN R(b, ONone) ELSE R(SubSeq(b, 1, n - 1), OBit(b[n]))
    [] op = "resize"   -> IF a.n <= n \/ Fits(x, a.n) THEN R(Resize(b, a.n, a.bit), OUnit) ELSE R(b, OPanic)
    [] op = "truncate" -> R(Truncate(b, a.n), OUnit)
    [] op = "sign_extend" -> IF a.n <= n \/ Fits(x, a.n) THEN R(SignExtend(b, a.n), OUnit) ELSE R(b, OPanic)
    [] op = "append"   -> IF Fits(x, n + Len(yb)) THEN R(b \o yb, OUnit) ELSE R(b, OPanic)
    [] op = "prepend"  -> IF Fits(x, n + Len(yb)) THEN R(yb \o b, OUnit) ELSE R(b, OPanic)
    [] op = "insert"   -> IF Fits(x, n + Len(yb)) THEN R(Insert(b, a.i, yb), OUnit) ELSE R(b, OPanic)
    [] op = "extend"   -> IF Fits(x, n + Len(a.bits)) THEN R(b \o a.bits, OUnit) ELSE R(b, OPanic)
    [] op = "split_off" -> IF a.i <= n THEN R(SubSeq(b, 1, a.i), OVec(SubSeq(b, a.i + 1, n))) ELSE R(b, OPanic)
    [] op = "split"    -> IF a.i <= n THEN R(b, OPair(SubSeq(b, a.i + 1, n), SubSeq(b, 1, a.i))) ELSE R(b, OPanic)  \* (high, low)
    [] op = "copy_range" -> IF a.i <= a.j /\ a.j <= n THEN R(b, OVec(CopyRange(b, a.i, a.j))) ELSE R(b, OPanic)
    [] op = "shl_in"   -> LET r == ShlIn(b, a.bit) IN R(r.v, OBit(r.o))
    [] op = "shr_in"   -> LET r == ShrIn(b, a.bit) IN R(r.v, OBit(r.o))
    [] op = "rotl"     -> R(Rotl(b, a.n), OUnit)
    [] op = "rotr"     -> R(Rotr(b, a.n), OUnit)
    [] op = "reserve"  -> R(b, OUnit)
    [] op = "shrink_to_fit" -> R(b, OUnit)
    [] op = "clone_from" -> R(yb, OUnit)     \* Clone::clone_from(&mut x, &y), y of x's own type: x becomes y

EditOps == {"set", "push", "pop", "resize", "truncate", "sign_extend", "append", "prepend",
            "insert", "extend", "split_off", "split", "copy_range", "shl_in", "shr_in",
            "rotl", "rotr", "reserve", "shrink_to_fit", "clone_from"}

(***************************************************************************)
(* Operators.  ev.y is a vector or a native integer (a vector of the       *)
(* integer's width); ev.f the form: first letter = left operand by value   *)
(* (v), by reference (r) or compound assignment (a), second letter = right *)
(* operand by value / by reference.  The result has the left operand's     *)
(* class, capacity and length whatever the form.                           *)
(***************************************************************************)
BinRes(op, b, yb) ==
  CASE op = "add" -> Add(b, yb)  [] op = "sub" -> Sub(b, yb)  [] op = "mul" -> Mul(b, yb)
    [] op = "div" -> DivRem(b, yb).q  [] op = "rem" -> DivRem(b, yb).r
    [] op = "and" -> And(b, yb)  [] op = "or" -> Or(b, yb)  [] op = "xor" -> Xor(b, yb)
BinOps   == {"add", "sub", "mul", "div", "rem", "and", "or", "xor"}
ShiftOps == {"shl", "shr"}
IsAssignForm(f) == f \in {"av", "ar"}

\* value forms leave the subject register alone and return the result,
\* assignment forms replace the subject and return nothing
ByForm(ev, res) == IF IsAssignForm(ev.f) THEN R(res, OUnit) ELSE R(ev.x.b, OVec(res))

ApiOp(ev) ==
  LET op == ev.op  b == ev.x.b  yb == ev.y.b IN
  CASE op \in {"div", "rem"} /\ IsZero(yb) -> R(b, OPanic)
    [] op = "div_rem" -> IF IsZero(yb) THEN R(b, OPanic)
                         ELSE LET d == DivRem(b, yb) IN R(b, OPair(d.q, d.r))
    [] op \in BinOps  -> ByForm(ev, BinRes(op, b, yb))
    [] op = "not"     -> R(b, OVec(Not(b)))
    [] op = "shl"     -> ByForm(ev, Shl(b, ev.a.n))
    [] op = "shr"     -> ByForm(ev, Shr(b, ev.a.n))

OpOps == BinOps \cup ShiftOps \cup {"div_rem", "not"}

ApiBase(ev) ==
  CASE ev.op \in CtorOps -> ApiCtor(ev)
    [] ev.op \in ObsOps  -> ApiObs(ev)
    [] ev.op \in EditOps -> ApiEdit(ev)
    [] ev.op \in OpOps   -> ApiOp(ev)

(***************************************************************************)
(* "rop": the subject used as the RIGHT operand.  A fresh all-ones vector  *)
(* z, a.n bits longer than the subject and growable, is the left operand   *)
(* of operation number a.i of the table below with the subject as its      *)
(* argument; the call returns what that operation returned, or z afterwards *)
(* for the forms that return nothing.  The subject itself is not changed.  *)
(***************************************************************************)
RopTable == << <<"and", "ar">>, <<"or", "ar">>, <<"xor", "rr">>, <<"add", "ar">>, <<"sub", "rr">>, <<"mul", "rr">>,
               <<"eq", "">>, <<"append", "">>, <<"prepend", "">>, <<"and", "rr">>, <<"ge", "">>, <<"div_rem", "">> >>
ApiRop(ev) ==
  LET b  == ev.x.b
      t  == RopTable[(ev.a.i % Len(RopTable)) + 1]
      z  == Ones(Len(b) + ev.a.n)
      e2 == [op |-> t[1], f |-> t[2], dbg |-> ev.dbg,
             x |-> [k |-> "*", cl |-> "D", c |-> 0, b |-> z],
             y |-> [k |-> ev.x.k, cl |-> ev.x.cl, c |-> ev.x.c, b |-> b],
             a |-> [z |-> 0]]
      r  == ApiBase(e2)
  IN R(b, IF r.o = OUnit THEN OVec(r.pb) ELSE r.o)

Api(ev) == IF ev.op = "rop" THEN ApiRop(ev) ELSE ApiBase(ev)

VecOps == CtorOps \cup ObsOps \cup EditOps \cup OpOps \cup {"rop"}

(***************************************************************************)
(* Capacity rules (C18/C19): constraints, never exact values.              *)
(*   pc = capacity after the call.                                         *)
(***************************************************************************)
\* capacity of a freshly constructed dynamic / auto vector of n bits
FreshCap(cl, n) == IF cl = "D" THEN 64 * ((n + 63) \div 64)
                   ELSE IF n <= 128 THEN 128 ELSE 64 * ((n + 63) \div 64)
CapOk(ev, pb, pc) ==
  /\ Len(pb) <= pc
  /\ IsFixed(ev.x) => pc = ev.x.c
  /\ ev.op = "with_capacity" /\ ~IsFixed(ev.x) => pc >= ev.a.n
  /\ ev.op = "reserve" /\ ~IsFixed(ev.x) => pc >= Len(pb) + ev.a.n
  /\ ev.op = "shrink_to_fit" /\ ~IsFixed(ev.x) => pc <= FreshCap(ev.x.cl, Len(pb))

(***************************************************************************)
(* Iterator: the model of BitIterator is a slice iterator, i.e. the list   *)
(* of bits still to be yielded plus a direction flag for .rev().           *)
(***************************************************************************)
ItNew(b) == [rem |-> b, rev |-> 0, live |-> 1]
ItDead   == [rem |-> <<>>, rev |-> 0, live |-> 0]
ItOps == {"it_new", "it_next", "it_next_back", "it_nth", "it_nth_back", "it_size_hint",
          "it_count", "it_last", "it_rev", "it_end"}

\* take from the front (d = 0) or the back (d = 1) after skipping k elements
ItTake(it, d, k) ==
  LET s == it.rem  n == Len(it.rem) IN
  IF k >= n THEN [it |-> [it EXCEPT !.rem = <<>>], o |-> ONone]
  ELSE IF d = 0 THEN [it |-> [it EXCEPT !.rem = DropFront(s, k + 1)], o |-> OBit(s[k + 1])]
       ELSE          [it |-> [it EXCEPT !.rem = DropBack(s, k + 1)],  o |-> OBit(s[n - k])]

\* [it |-> iterator afterwards, o |-> returned value]
ApiIt(ev, it) ==
  LET op == ev.op  n == Len(it.rem) IN
  CASE op = "it_new"       -> [it |-> ItNew(ev.x.b), o |-> OUnit]
    [] op = "it_next"      -> ItTake(it, it.rev, 0)
    [] op = "it_next_back" -> ItTake(it, 1 - it.rev, 0)
    [] op = "it_nth"       -> ItTake(it, it.rev, ev.a.n)
    [] op = "it_nth_back"  -> ItTake(it, 1 - it.rev, ev.a.n)
    [] op = "it_size_hint" -> [it |-> it, o |-> ONum(n)]           \* exact: (n, Some(n))
    [] op = "it_count"     -> [it |-> ItDead, o |-> ONum(n)]
    [] op = "it_last"      -> [it |-> ItDead,
                               o |-> IF n = 0 THEN ONone
                                     ELSE OBit(IF it.rev = 0 THEN it.rem[n] ELSE it.rem[1])]
    [] op = "it_rev"       -> [it |-> [it EXCEPT !.rev = 1 - it.rev], o |-> OUnit]
    [] op = "it_end"       -> [it |-> ItDead, o |-> OUnit]

(***************************************************************************)
(* The state machine proper.                                               *)
(***************************************************************************)
VARIABLES regs,      \* register name -> [cl, c, b]   (a function with a finite, growing domain)
          iter       \* the live iterator

bvars == <<regs, iter>>

Bind(r, x) == IF r \in DOMAIN regs THEN [regs EXCEPT ![r] = x] ELSE regs @@ (r :> x)

BvaInit == regs = << >> /\ iter = ItDead

\* the call described by ev on register r, with pc the capacity afterwards
Call(r, ev, pc) ==
  IF ev.op \in ItOps
  THEN /\ iter' = ApiIt(ev, iter).it
       /\ UNCHANGED regs
  ELSE /\ regs' = Bind(r, [cl |-> ev.x.cl, c |-> pc, b |-> Api(ev).pb])
       /\ UNCHANGED iter

\* len <= capacity in every reachable state (C18 / C19)
LenLeCap == \A r \in DOMAIN regs : Len(regs[r].b) <= regs[r].c
=============================================================================
