------------------------------- MODULE MCHist -------------------------------
(***************************************************************************)
(* Histories of the Bva machine on one register: any sequence of public    *)
(* calls from any starting vector.  Two uses:                              *)
(*                                                                         *)
(*  - complete-graph model checking with small bounds (MaxLen <= 5): TLC   *)
(*    visits every state reachable by ANY history and checks the state     *)
(*    invariants (len <= cap, bits are bits, edits are list edits checked  *)
(*    transition by transition through Props!C07 / C19);                   *)
(*  - `tlc -simulate`: random behaviours with lengths steered across the   *)
(*    storage-word boundaries and the inline limit (MaxLen = 140), printed *)
(*    as JSON ([k |-> "H", steps |-> <<[ev, r], ...>>]) when they reach    *)
(*    the depth bound and replayed step by step on live objects of the     *)
(*    real code, whose recorded trace is then validated against Trace.tla. *)
(*                                                                         *)
(* The alphabet is chosen by Profile: "edits" (C07), "cap" (C18: edits,    *)
(* reserve / shrink_to_fit, arithmetic with longer operands) or "all"      *)
(* (C03: everything that can leave state behind).                          *)
(***************************************************************************)
EXTENDS Props, Json

CONSTANTS MaxLen,     \* no vector grows beyond this
          Depth,      \* behaviours are emitted when they reach this many steps
          Profile     \* "edits" | "cap" | "all"

VARIABLE hist         \* the calls made so far: <<[ev, r], ...>>

hvars == <<regs, iter, hist>>

Alt(n)  == [i \in 1..n |-> i % 2]
Hole(n) == [i \in 1..n |-> IF i = (n + 1) \div 2 THEN 0 ELSE 1]

\* lengths at, just below and just above the word boundaries of u8 / u64 storage and the inline limit
LenTargets == {0, 1, 2, 3, 4, 5, 7, 8, 9, 15, 16, 17, 31, 32, 33, 63, 64, 65, 70, 127, 128, 129, 130, 140} \cap (0..MaxLen)
Operands   == {<<>>, <<1>>, <<0, 1>>, <<1, 1, 0>>, Ones(8), Hole(9), Alt(16), Ones(60), Hole(64), Alt(65), Ones(130)}
Starts     == {b \in {<<>>, <<1>>, <<1, 0, 1>>, Ones(7), Hole(8), Alt(9), Ones(63), Alt(64), Hole(65), Ones(127), Alt(128), Hole(129)} :
                 Len(b) <= MaxLen}

X(b)    == [k |-> "*", cl |-> "*", c |-> 0, b |-> b]
NoY     == [k |-> "-", cl |-> "-", c |-> 0, b |-> <<>>]
VecY(y) == [k |-> "*", cl |-> "*", c |-> 0, b |-> y]
IntY(ty, y) == [k |-> ty, cl |-> "I", c |-> Len(y), b |-> y]
E(op, f, b, y, a) == [op |-> op, f |-> f, x |-> X(b), y |-> y, a |-> a, dbg |-> 1]

Idxs(n) == {0, n \div 2, n - 1} \cap (0..(n - 1))
Cuts(n) == {0, 1, n \div 2, n - 1, n} \cap (0..n)

EditEvents(b) ==
  LET n == Len(b) IN
     {E("push", "", b, NoY, [bit |-> c]) : c \in {0, 1}}
  \cup {E("pop", "", b, NoY, [z |-> 0])}
  \cup {E("set", "", b, NoY, [i |-> i, bit |-> c]) : i \in Idxs(n), c \in {0, 1}}
  \cup {E("resize", "", b, NoY, [n |-> m, bit |-> c]) : m \in LenTargets, c \in {0, 1}}
  \cup {E("truncate", "", b, NoY, [n |-> m]) : m \in LenTargets}
  \cup {E("sign_extend", "", b, NoY, [n |-> m]) : m \in LenTargets}
  \cup {E("append", "", b, VecY(y), [z |-> 0]) : y \in Operands}
  \cup {E("prepend", "", b, VecY(y), [z |-> 0]) : y \in Operands}
  \cup {E("insert", "", b, VecY(y), [i |-> i]) : y \in Operands, i \in Cuts(n)}
  \cup {E("extend", "", b, NoY, [bits |-> y]) : y \in Operands}

CapEvents(b) ==
  LET n == Len(b) IN
     {E("reserve", "", b, NoY, [n |-> k]) : k \in {0, 1, 63, 64, 65, 128, 200}}
  \cup {E("shrink_to_fit", "", b, NoY, [z |-> 0])}
  \cup {E("split_off", "", b, NoY, [i |-> i]) : i \in Cuts(n)}
  \cup {E(op, f, b, VecY(y), [z |-> 0]) : op \in {"add", "sub", "or", "xor"}, f \in {"av", "ar"}, y \in Operands}
  \* Clone::clone_from: the subject becomes a copy of a source of its own type (its storage may be reused)
  \cup {E("clone_from", "", b, VecY(y), [z |-> 0]) : y \in {o \in Operands : Len(o) <= MaxLen}}

OtherEvents(b) ==
  LET n == Len(b) IN
     {E(op, "", b, NoY, [bit |-> c]) : op \in {"shl_in", "shr_in"}, c \in {0, 1}}
  \cup {E(op, "", b, NoY, [n |-> k]) : op \in {"rotl", "rotr"}, k \in {0, 1, n \div 2, n} \cap (0..n)}
  \cup {E(op, f, b, NoY, [n |-> k]) : op \in {"shl", "shr"}, f \in {"av", "ar"}, k \in {0, 1, 7, 8, 63, 64, 65}}
  \cup {E(op, f, b, VecY(y), [z |-> 0]) : op \in {"and", "mul"}, f \in {"av", "ar"}, y \in {<<1, 1>>, Ones(8), Ones(130)}}
  \cup {E(op, f, b, IntY("u8", y), [z |-> 0]) : op \in {"add", "sub", "or", "xor", "mul"}, f \in {"av", "ar"},
                                                 y \in {<<1,0,0,0,0,0,0,0>>, Ones(8), <<0,0,0,0,1,1,1,1>>}}
  \cup {E(op, f, b, IntY("u8", <<1, 1, 0, 0, 0, 0, 0, 0>>), [z |-> 0]) : op \in {"div", "rem"}, f \in {"av", "ar"}}

Events(b) ==
  CASE Profile = "edits" -> EditEvents(b)
    [] Profile = "cap"   -> EditEvents(b) \cup CapEvents(b)
    [] Profile = "all"   -> EditEvents(b) \cup CapEvents(b) \cup OtherEvents(b)

HInit ==
  /\ iter = ItDead /\ hist = <<>>
  /\ \E b \in Starts : regs = [s |-> [cl |-> "*", c |-> Len(b), b |-> b]]

\* the statement of the properties for ONE call: edits are list edits (C07), fixed overflow is
\* signalled (C19), capacity management never changes the value and a growable vector never fails (C18)
TransitionOK(ev, r) ==
  /\ MaxLen <= 20 => C07(ev, r)          \* numeric statement (Val): small scope only
  /\ C19(ev, r)
  /\ ev.op \in {"reserve", "shrink_to_fit"} => r.pb = ev.x.b
  /\ ev.op = "clone_from" => r.pb = ev.y.b /\ r.o = OUnit
  /\ r.o.t # "panic"
  /\ IsBits(r.pb)

HNext ==
  /\ Len(hist) < Depth
  /\ \E ev \in Events(regs.s.b) :
       LET r == Api(ev) IN
       /\ Len(r.pb) <= MaxLen
       \* evaluated on EVERY generated transition (the VIEW only merges states, not transitions)
       /\ Assert(TransitionOK(ev, r), <<"property statement violated by the specification on", ev, r>>)
       /\ Call("s", ev, Len(r.pb))
       /\ hist' = Append(hist, [ev |-> ev, r |-> r])

\* length of the subject after the call, without evaluating the call
NewLen(ev) ==
  LET n == Len(ev.x.b) IN
  CASE ev.op = "push" -> n + 1
    [] ev.op = "pop" -> IF n = 0 THEN 0 ELSE n - 1
    [] ev.op = "resize" -> ev.a.n
    [] ev.op = "truncate" -> Min2(n, ev.a.n)
    [] ev.op = "sign_extend" -> Max2(n, ev.a.n)
    [] ev.op \in {"append", "prepend", "insert"} -> n + Len(ev.y.b)
    [] ev.op = "extend" -> n + Len(ev.a.bits)
    [] ev.op = "split_off" -> ev.a.i
    [] ev.op = "clone_from" -> Len(ev.y.b)
    [] OTHER -> n

\* Simulation: ONE call per step, drawn at random (TLC!RandomElement), so that `tlc -simulate`
\* evaluates one Api per step instead of the whole alphabet.  The operation and its arguments are
\* drawn separately (building the whole alphabet of records at every step is what made simulation
\* slow); every random draw is bound through a singleton set because a LET would re-draw the
\* element at every use.
OpNames ==
  CASE Profile = "edits" -> {"push", "pop", "set", "resize", "truncate", "sign_extend", "append", "prepend", "insert", "extend"}
    [] Profile = "cap"   -> {"push", "pop", "set", "resize", "truncate", "sign_extend", "append", "prepend", "insert", "extend",
                             "reserve", "shrink_to_fit", "split_off", "arith", "resize", "append", "clone_from"}
    [] Profile = "all"   -> {"push", "pop", "set", "resize", "truncate", "sign_extend", "append", "prepend", "insert", "extend",
                             "reserve", "shrink_to_fit", "split_off", "arith", "shl_in", "shr_in", "rotl", "rotr", "shift", "arith2", "arithint", "divint", "clone_from"}
EventFor(b, op, c, m, y, i, k, f, aop) ==
  LET n == Len(b) IN
  CASE op = "push" -> E("push", "", b, NoY, [bit |-> c])
    [] op = "pop" -> E("pop", "", b, NoY, [z |-> 0])
    [] op = "set" -> IF n = 0 THEN E("pop", "", b, NoY, [z |-> 0]) ELSE E("set", "", b, NoY, [i |-> i % n, bit |-> c])
    [] op = "resize" -> E("resize", "", b, NoY, [n |-> m, bit |-> c])
    [] op = "truncate" -> E("truncate", "", b, NoY, [n |-> m])
    [] op = "sign_extend" -> E("sign_extend", "", b, NoY, [n |-> m])
    [] op = "append" -> E("append", "", b, VecY(y), [z |-> 0])
    [] op = "prepend" -> E("prepend", "", b, VecY(y), [z |-> 0])
    [] op = "insert" -> E("insert", "", b, VecY(y), [i |-> i % (n + 1)])
    [] op = "extend" -> E("extend", "", b, NoY, [bits |-> y])
    [] op = "reserve" -> E("reserve", "", b, NoY, [n |-> k])
    [] op = "shrink_to_fit" -> E("shrink_to_fit", "", b, NoY, [z |-> 0])
    [] op = "split_off" -> E("split_off", "", b, NoY, [i |-> i % (n + 1)])
    [] op = "clone_from" -> E("clone_from", "", b, VecY(y), [z |-> 0])
    [] op = "arith" -> E(aop, f, b, VecY(y), [z |-> 0])
    [] op = "arith2" -> E(IF c = 0 THEN "and" ELSE "mul", f, b, VecY(IF Len(y) > 20 THEN Ones(130) ELSE y), [z |-> 0])
    [] op = "arithint" -> E(aop, f, b, IntY("u8", Fit(y \o <<1>>, 8)), [z |-> 0])
    [] op = "divint" -> E(IF c = 0 THEN "div" ELSE "rem", f, b, IntY("u8", <<1, 1, 0, 0, 0, 0, 0, 0>>), [z |-> 0])
    [] op = "shl_in" -> E("shl_in", "", b, NoY, [bit |-> c])
    [] op = "shr_in" -> E("shr_in", "", b, NoY, [bit |-> c])
    [] op = "rotl" -> E("rotl", "", b, NoY, [n |-> IF n = 0 THEN 0 ELSE i % (n + 1)])
    [] op = "rotr" -> E("rotr", "", b, NoY, [n |-> IF n = 0 THEN 0 ELSE i % (n + 1)])
    [] op = "shift" -> E(IF c = 0 THEN "shl" ELSE "shr", f, b, NoY, [n |-> k % 66])

HNextSim ==
  /\ Len(hist) < Depth
  /\ \E op \in {RandomElement(OpNames)}, c \in {RandomElement({0, 1})}, m \in {RandomElement(LenTargets)},
        y \in {RandomElement(Operands)}, i \in {RandomElement(0..MaxLen)}, k \in {RandomElement({0, 1, 7, 8, 63, 64, 65, 128, 200})},
        f \in {RandomElement({"av", "ar"})}, aop \in {RandomElement({"add", "sub", "or", "xor"})} :
       LET e0 == EventFor(regs.s.b, op, c, m, y, i, k, f, aop)
           \* a call that would grow beyond MaxLen is replaced by a truncation
           ev == IF NewLen(e0) <= MaxLen THEN e0 ELSE E("truncate", "", regs.s.b, NoY, [n |-> m])
           r  == Api(ev) IN
       /\ Assert(TransitionOK(ev, r), <<"property statement violated by the specification on", ev, r>>)
       /\ Call("s", ev, Len(r.pb))
       /\ hist' = Append(hist, [ev |-> ev, r |-> r])

\* state invariants of every reachable state, after any history
HTypeOK == IsBits(regs.s.b) /\ Len(regs.s.b) <= MaxLen
HInv    == HTypeOK /\ LenLeCap

\* emit the behaviour once, when it is complete (simulation mode)
HEmit == Len(hist) = Depth => PrintT(ToJson([k |-> "H", steps |-> hist]))

\* complete-graph mode: the history variable is hidden from the fingerprint
HView == <<regs, iter>>
=============================================================================
