------------------------------- MODULE MCIter -------------------------------
(***************************************************************************)
(* C17: BitIterator behaves like a slice iterator.                         *)
(*                                                                         *)
(* Two machines run in lock step over the same vector v:                   *)
(*   - IDX, shaped like the implementation (iter.rs): a half-open index    *)
(*     range [start, end) into v, every call computing new indices, with   *)
(*     `.rev()` handled the way core::iter::Rev does (swap front and back, *)
(*     `last` by exhausting from the new front);                           *)
(*   - Bva!iter, the slice-iterator model: the list of bits still to be    *)
(*     yielded (ApiIt in Bva.tla), which is what Trace.tla validates real  *)
(*     executions against.                                                 *)
(* Refinement (checked on every transition of the complete product graph   *)
(* for all vectors up to MaxLen bits and arguments 0..3 and BIG): both     *)
(* return the same value, and v[start+1 .. end] is exactly the remaining   *)
(* list.  In simulation mode call sequences are emitted ([k |-> "S", ...]) *)
(* and replayed on BitIterator / Rev<BitIterator> of every implementation. *)
(***************************************************************************)
EXTENDS Props, Json

CONSTANTS MaxLen, Depth

VARIABLES v,        \* the vector iterated over (never changes: iterating does not modify it)
          idx,      \* [start, end, rev, live]: the implementation-shaped iterator
          calls     \* history: <<[op, k, o], ...>>

ivars == <<regs, iter, v, idx, calls>>

Args == {0, 1, 2, 3, BIG}

IdxNew == [start |-> 0, end |-> Len(v), rev |-> 0, live |-> 1, nrev |-> 0]
Remaining(i) == i.end - i.start

\* front / back primitives of BitIterator (iter.rs, after the fix of the start + n overflow)
IdxFront(i, n) == IF n < Remaining(i) THEN [i |-> [i EXCEPT !.start = i.start + n + 1], o |-> OBit(v[i.start + n + 1])]
                  ELSE [i |-> [i EXCEPT !.start = i.end], o |-> ONone]
IdxBack(i, n)  == IF n < Remaining(i) THEN [i |-> [i EXCEPT !.end = i.end - (n + 1)], o |-> OBit(v[i.end - n])]
                  ELSE [i |-> [i EXCEPT !.end = i.start], o |-> ONone]

IdxCall(i, op, n) ==
  CASE op = "it_next"      -> IF i.rev = 0 THEN IdxFront(i, 0) ELSE IdxBack(i, 0)
    [] op = "it_next_back" -> IF i.rev = 0 THEN IdxBack(i, 0) ELSE IdxFront(i, 0)
    [] op = "it_nth"       -> IF i.rev = 0 THEN IdxFront(i, n) ELSE IdxBack(i, n)
    [] op = "it_nth_back"  -> IF i.rev = 0 THEN IdxBack(i, n) ELSE IdxFront(i, n)
    [] op = "it_size_hint" -> [i |-> i, o |-> ONum(Remaining(i))]
    [] op = "it_count"     -> [i |-> [i EXCEPT !.live = 0], o |-> ONum(Remaining(i))]
    [] op = "it_last"      -> [i |-> [i EXCEPT !.live = 0],
                               o |-> IF Remaining(i) = 0 THEN ONone
                                     ELSE IF i.rev = 0 THEN OBit(v[i.end]) ELSE OBit(v[i.start + 1])]
    [] op = "it_rev"       -> [i |-> [i EXCEPT !.rev = 1 - i.rev, !.nrev = i.nrev + 1], o |-> OUnit]

CallOps == {"it_next", "it_next_back", "it_nth", "it_nth_back", "it_size_hint", "it_count", "it_last", "it_rev"}

Ev(op, n) == [op |-> op, f |-> "", x |-> [k |-> "*", cl |-> "*", c |-> 0, b |-> v], y |-> [k |-> "-", cl |-> "-", c |-> 0, b |-> <<>>],
              a |-> [n |-> n], dbg |-> 1]

\* indices stay ordered and inside the vector; the slice model is what the indices denote
Refines ==
  idx.live = 1 =>
    /\ 0 <= idx.start /\ idx.start <= idx.end /\ idx.end <= Len(v)
    /\ iter.live = 1 /\ iter.rev = idx.rev
    /\ iter.rem = SubSeq(v, idx.start + 1, idx.end)

IInit ==
  /\ v \in UNION {[1..k -> {0, 1}] : k \in 0..MaxLen}
  /\ regs = << >>
  /\ iter = ItNew(v) /\ idx = IdxNew /\ calls = <<>>

Do(op, n) ==
  LET ev == Ev(op, n)
      a  == ApiIt(ev, iter)
      i  == IdxCall(idx, op, n) IN
  /\ idx.live = 1
  /\ op = "it_rev" => idx.nrev < 4        \* the harness has Rev<..> types up to four deep
  /\ Assert(a.o = i.o, <<"index machine and slice iterator return different values", v, calls, op, n, a.o, i.o>>)
  /\ Call("s", ev, 0)                   \* Bva's action on the slice model
  /\ idx' = i.i
  /\ calls' = Append(calls, [op |-> op, k |-> n, o |-> a.o])
  /\ UNCHANGED v

INext ==
  /\ Len(calls) < Depth
  /\ \E op \in CallOps, n \in Args :
       /\ (op \notin {"it_nth", "it_nth_back"}) => n = 0
       /\ Do(op, n)

\* simulation: one random call per step; long vectors
SimVectors == {Zeros(0), <<1>>, <<1, 0, 1>>, [i \in 1..9 |-> i % 2], Ones(63) \o <<0>>, [i \in 1..65 |-> (i \div 3) % 2],
               [i \in 1..70 |-> IF i % 7 = 0 THEN 1 ELSE 0], [i \in 1..129 |-> (i \div 5) % 2]}
IInitSim ==
  /\ v \in SimVectors
  /\ regs = << >>
  /\ iter = ItNew(v) /\ idx = IdxNew /\ calls = <<>>
INextSim ==
  /\ Len(calls) < Depth
  /\ \E op \in {RandomElement(CallOps \cup {"it_next", "it_next_back", "it_nth", "it_nth_back"})},
        n \in {RandomElement({0, 1, 2, 3, 7, 60, Len(v), BIG})} :
       Do(op, IF op \in {"it_nth", "it_nth_back"} THEN n ELSE 0)

\* emit a session when it ends (iterator consumed) or reaches the depth bound
IEmit == (idx.live = 0 \/ Len(calls) = Depth) /\ calls # <<>> => PrintT(ToJson([k |-> "S", v |-> v, calls |-> calls]))

IView == <<v, idx, iter>>
=============================================================================
