def replay(prop, path, bins):
    print("replay not implemented yet")
    return 2
