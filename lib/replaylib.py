"""bin/check <PROP> --replay <violation file>: re-executes exactly the recorded case (history prefix
+ offending event) on the current tree, in the recorded build profile, and has TLC validate the
newly observed events again."""
import json
import os

import checklib


def replay(prop, path, bins):
    v = json.load(open(path))
    prof = v.get("profile", "dev")
    if prof not in bins:
        prof = list(bins.keys())[0]
    out = os.path.join(checklib.OUT, "rerun", os.path.basename(path).replace(".json", ".ndjson"))
    os.makedirs(os.path.dirname(out), exist_ok=True)
    import subprocess
    r = subprocess.run([bins[prof], "rerun", path, "--out", out], stdout=subprocess.PIPE, stderr=subprocess.PIPE, text=True)
    if r.returncode != 0:
        checklib.log("TOOL-ERROR rerun failed:", r.stderr[-2000:])
        return 2
    res = checklib.validate_shard(out, 600)
    if res.get("error") and not res.get("mismatches"):
        checklib.log("TOOL-ERROR", res["error"])
        return 2
    if res["mismatches"]:
        lines = checklib.read_lines(out)
        for mm in res["mismatches"]:
            ev = json.loads(lines[mm["l"] - 1])
            checklib.log("  line %d: %s %s -> %s" % (mm["l"], ev.get("op"), json.dumps(ev.get("a"))[:100], ",".join(mm["c"])))
        print("VIOLATION property=%s replay=%s" % (prop, path))
        return 1
    print("replay of %s: the recorded case conforms on the current tree (%s profile)" % (path, prof))
    return 0
