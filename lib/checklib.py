"""Orchestration of one property check: harness build, TLC bounded model + replay (spec -> impl),
drivers + TLC trace validation (impl -> spec), known findings, evidence."""
import concurrent.futures
import fcntl
import glob
import json
import os
import re
import shutil
import subprocess
import sys
import time

VERIF = os.path.normpath(os.path.join(os.path.dirname(os.path.abspath(__file__)), ".."))
SPEC = os.path.join(VERIF, "spec")
HARNESS = os.path.join(VERIF, "harness")
OUT = os.path.join(VERIF, "out")
EVID = os.path.join(VERIF, "evidence")
TLA_CP = "/opt/veriftools/tla/tla2tools.jar:/opt/veriftools/tla/CommunityModules-deps.jar"
PROPS = ["C%02d" % i for i in range(1, 21)]

# Which deciding methods apply to a property (everything is decided by TLC; the table only says
# which bounded model exists and which trace shape is recorded).
MC_MODELS = {}   # filled by mcmodels.py (property -> list of model descriptions)


EXPECTED_TRACE_OPS = {
    "C01": ["add", "sub", "mul"], "C02": ["div", "rem", "div_rem"], "C03": ["resize", "push", "append", "to_vec", "fmt", "hash", "eq", "add", "or"],
    "C04": ["and", "or", "xor", "not"], "C05": ["shl", "shr", "shl_in", "shr_in"], "C06": ["rotl", "rotr"],
    "C07": ["push", "pop", "set", "resize", "truncate", "sign_extend", "append", "prepend", "insert", "extend", "collect"],
    "C08": ["copy_range", "split_off", "split", "first", "last"], "C09": ["eq", "ne", "lt", "le", "gt", "ge", "pcmp", "cmp"],
    "C10": ["hash", "hs_contains"], "C11": ["from_int", "to_int", "from_slice", "bit_from_int", "bit_to_int"],
    "C12": ["convert", "new_inner"], "C13": ["to_vec", "write", "from_bytes", "read"], "C14": ["fmt"],
    "C15": ["from_binary", "from_hex"], "C16": ["leading_zeros", "leading_ones", "trailing_zeros", "trailing_ones", "significant_bits", "is_zero"],
    "C17": ["it_new", "it_next", "it_next_back", "it_nth", "it_nth_back", "it_size_hint", "it_count", "it_last", "it_rev"],
    "C18": ["reserve", "shrink_to_fit", "resize", "push", "append"], "C19": ["push", "resize", "append", "prepend", "insert", "extend", "collect", "zeros", "ones", "from_bytes", "from_binary", "from_hex", "read", "convert"],
    "C20": ["add", "sub", "mul", "div", "rem", "and", "or", "xor", "shl", "shr", "not"],
}


class ToolError(Exception):
    pass


def log(*a):
    print(*a, file=sys.stderr, flush=True)


# ------------------------------------------------------------------------------------------------
# harness build
# ------------------------------------------------------------------------------------------------

def build_harness(profiles):
    """cargo build of the harness (bva is a path dependency on /repo: rebuilt from the working tree)."""
    os.makedirs(OUT, exist_ok=True)
    bins = {}
    with open(os.path.join(OUT, ".buildlock"), "w") as lk:
        fcntl.flock(lk, fcntl.LOCK_EX)
        procs = []
        t0 = time.time()
        for prof in profiles:
            # the two profiles use separate build directories (and locks): build them concurrently
            cmd = ["cargo", "build", "--offline", "--quiet"] + (["--release"] if prof == "release" else [])
            procs.append((prof, subprocess.Popen(cmd, cwd=HARNESS, stdout=subprocess.PIPE, stderr=subprocess.STDOUT, text=True,
                                                 env=dict(os.environ, CARGO_NET_OFFLINE="true"))))
        for prof, p in procs:
            out, _ = p.communicate()
            if p.returncode != 0:
                raise ToolError("harness build failed (%s):\n%s" % (prof, out[-4000:]))
            bins[prof] = os.path.join(HARNESS, "target", "debug" if prof == "dev" else "release", "bva-verif-harness")
        log("[build] %s %.1fs" % ("+".join(profiles), time.time() - t0))
    return bins


# ------------------------------------------------------------------------------------------------
# TLC
# ------------------------------------------------------------------------------------------------

def tlc_cmd(workers, xmx="3g", deque=False):
    # TLC leaves an empty tlc-* directory in java.io.tmpdir per run: keep them under out/ (git-ignored)
    tmpd = os.path.join(OUT, "jtmp")
    os.makedirs(tmpd, exist_ok=True)
    opts = ["java", "-XX:+UseSerialGC" if workers == 1 else "-XX:+UseParallelGC", "-Xmx" + xmx, "-Xss1g", "-Djava.io.tmpdir=" + tmpd]
    if deque:
        opts.append("-Dtlc2.tool.queue.IStateQueue=StateDeque")
    return opts + ["-cp", TLA_CP, "tlc2.TLC", "-workers", str(workers)]


def parse_json_prints(text):
    """PrintT(ToJson(..)) prints a TLA+ string literal: a JSON string holding JSON."""
    out = []
    for line in text.splitlines():
        line = line.strip()
        if line.startswith('"{') and line.endswith('}"'):
            try:
                out.append(json.loads(json.loads(line)))
            except Exception:
                pass
    return out


def validate_shard(shard, timeout_s):
    """Validate one recorded trace with TLC against spec/Trace.tla."""
    md = shard + ".md"
    shutil.rmtree(md, ignore_errors=True)
    cmd = tlc_cmd(1, "3g") + ["-metadir", md, "-cleanup", "-noGenerateSpecTE", "-config", "Trace.cfg", "Trace.tla"]
    t0 = time.time()
    try:
        r = subprocess.run(cmd, cwd=SPEC, stdout=subprocess.PIPE, stderr=subprocess.STDOUT, text=True,
                           timeout=timeout_s, env=dict(os.environ, TRACE=shard))
    except subprocess.TimeoutExpired:
        shutil.rmtree(md, ignore_errors=True)
        return {"shard": shard, "error": "TLC timed out after %ds" % timeout_s, "wall": time.time() - t0}
    shutil.rmtree(md, ignore_errors=True)
    prints = parse_json_prints(r.stdout)
    summ = [p for p in prints if p.get("k") == "SUMMARY"]
    mism = [p for p in prints if p.get("k") == "MISMATCH"]
    states = 0
    m = re.search(r"(\d+) states generated, (\d+) distinct states found", r.stdout)
    if m:
        states = int(m.group(2))
    res = {"shard": shard, "wall": time.time() - t0, "mismatches": mism, "states": states, "error": None}
    if not summ:
        res["error"] = "TLC did not reach the end of the trace:\n" + "\n".join(
            l for l in r.stdout.splitlines() if not re.match(r"^(Parsing|Semantic|Linting|Picked up)", l))[-3000:]
    else:
        res.update(consumed=summ[0]["consumed"], lines=summ[0]["lines"], bad=summ[0]["bad"])
        if summ[0]["consumed"] != summ[0]["lines"]:
            res["error"] = "trace not consumed: %d of %d lines" % (summ[0]["consumed"], summ[0]["lines"])
    return res


def read_lines(path):
    with open(path) as f:
        return f.read().splitlines()


# ------------------------------------------------------------------------------------------------
# known findings
# ------------------------------------------------------------------------------------------------

def load_known():
    p = os.path.join(VERIF, "known_findings.json")
    if not os.path.exists(p):
        return []
    return json.load(open(p)).get("findings", [])


def get_path(ev, dotted):
    cur = ev
    for part in dotted.split("."):
        if isinstance(cur, dict) and part in cur:
            cur = cur[part]
        else:
            return None
    return cur


def matches_known(prop, ev, complaints, known):
    """A violation is a known finding iff a `known` entry of this property matches the event:
    every key of its `match` (dotted path into the event; value or list of allowed values; the
    pseudo keys xlen/ylen give operand lengths) agrees."""
    for k in known:
        if k.get("status") != "known" or k.get("property") != prop:
            continue
        ok = True
        for path, want in k.get("match", {}).items():
            if path == "xlen":
                got = len(get_path(ev, "x.b") or [])
            elif path == "ylen":
                got = len(get_path(ev, "y.b") or [])
            elif path == "complaint":
                got = None
                ok = ok and any(c in (want if isinstance(want, list) else [want]) for c in complaints)
                continue
            else:
                got = get_path(ev, path)
            if isinstance(want, list):
                ok = ok and got in want
            else:
                ok = ok and got == want
        if ok:
            return k
    return None


# ------------------------------------------------------------------------------------------------
# one property
# ------------------------------------------------------------------------------------------------

def nontrivial_key(ev):
    """distinct & non-trivial: keyed by (op, form class, subject bits, operand bits, arguments);
    trivial = subject and operand both empty or all-zero and no byte/char/bit arguments."""
    xb = ev.get("x", {}).get("b", [])
    yb = ev.get("y", {}).get("b", [])
    a = ev.get("a", {})
    payload = any(a.get(k) for k in ("bytes", "chars", "els", "bits"))
    if not any(xb) and not any(yb) and not payload and not a.get("n"):
        return None
    return json.dumps([ev.get("op"), xb, yb, a], sort_keys=True)


def drive_and_validate(prop, tier, seed, bins, workdir, shards, tlc_timeout):
    res = {"profiles": {}, "violations": [], "tool_errors": [], "events": 0, "execs": 0, "shards": 0,
           "trace_states": 0, "samples": [], "distinct": set(), "by_op": {}, "by_kind": {}}
    jobs = []
    procs = {}
    t0 = time.time()
    for prof, binpath in bins.items():
        # the drivers of the two build profiles run concurrently
        d = os.path.join(workdir, prof)
        shutil.rmtree(d, ignore_errors=True)
        os.makedirs(d)
        curfile = os.path.join(d, "current-case.json")
        procs[prof] = (d, curfile, subprocess.Popen(
            [binpath, "drive", prop, "--tier", tier, "--seed", str(seed), "--out", d, "--shards", str(shards)],
            stdout=subprocess.PIPE, stderr=subprocess.PIPE, text=True, env=dict(os.environ, VERIF_CURRENT_FILE=curfile)))
    for prof, (d, curfile, proc) in procs.items():
        try:
            so, se = proc.communicate(timeout=3600)
        except subprocess.TimeoutExpired:
            proc.kill()
            so, se = proc.communicate()
            res["tool_errors"].append("driver %s timed out" % prof)
            continue

        class R:
            pass
        r = R()
        r.returncode, r.stdout, r.stderr = proc.returncode, so, se
        if r.returncode < 0 or r.returncode in (101, 134, 139):
            # the driver was killed (abort / stack overflow / signal) inside a call of the code under test
            try:
                case = json.load(open(curfile))
            except Exception:
                case = {}
            ev = {"op": case.get("op", "?"), "cf": "fun", "f": "", "x": case.get("x", {}), "y": {"k": str(case.get("y")), "b": []}, "a": case.get("a", {})}
            res["violations"].append({"profile": prof, "shard": "driver", "line": 0, "event": ev,
                                      "complaints": ["process-killed-by-call (exit %d): %s" % (r.returncode, r.stderr[-300:].replace("\n", " "))],
                                      "expected": {}, "prefix": []})
            continue
        if r.returncode == 3:
            # the watchdog fired: a call of the code under test did not return
            hang = [json.loads(l) for l in r.stdout.splitlines() if l.startswith('{"case"') or '"k":"HANG"' in l]
            case = hang[-1]["case"] if hang else {}
            ev = {"op": case.get("op") if isinstance(case, dict) else "?", "cf": "fun", "f": "", "x": case.get("x", {}) if isinstance(case, dict) else {},
                  "y": {"k": str(case.get("y")) if isinstance(case, dict) else "?", "b": []}, "a": case.get("a", {}) if isinstance(case, dict) else {}}
            res["violations"].append({"profile": prof, "shard": "driver", "line": 0, "event": ev, "complaints": ["call-does-not-return"],
                                      "expected": {}, "prefix": []})
            continue
        if r.returncode != 0:
            res["tool_errors"].append("driver %s failed (exit %d): %s" % (prof, r.returncode, r.stderr[-2000:]))
            continue
        summ = json.loads(r.stdout)
        log("[drive] %s %s: %d events from %d executions in %.1fs" % (prop, prof, summ["events"], summ["execs"], time.time() - t0))
        res["profiles"][prof] = {k: summ[k] for k in ("events", "execs", "prep_fallbacks", "histories", "twin_agree", "twin_differ")}
        res["events"] += summ["events"]
        res["execs"] += summ["execs"]
        for k, v in summ.get("by_op", {}).items():
            res["by_op"][k] = res["by_op"].get(k, 0) + v
        for k, v in summ.get("by_kind", {}).items():
            res["by_kind"][k] = res["by_kind"].get(k, 0) + v
        res["samples"].extend(summ["samples"][:3])
        for s in sorted(glob.glob(os.path.join(d, "*.ndjson"))):
            jobs.append((prof, s))
    t0 = time.time()
    validate_jobs(jobs, res, tlc_timeout)
    log("[tlc] %s: %d shards validated in %.1fs" % (prop, res["shards"], time.time() - t0))
    # vacuity control: the operations the property is about must occur in the validated traces
    missing = [o for o in EXPECTED_TRACE_OPS.get(prop, []) if res.get("trace_ops", {}).get(o, 0) == 0]
    if missing and res["profiles"]:
        res["tool_errors"].append("vacuity: the validated traces of %s never contain %s" % (prop, ", ".join(missing)))
    return res


def shard_digest(path):
    """digest of a trace shard without the fields that merely name the build profile"""
    import hashlib
    h = hashlib.sha256()
    with open(path) as f:
        for i, line in enumerate(f):
            if i == 0:
                continue        # header
            h.update(re.sub(r'"dbg":[01],?', "", line).encode())
    return h.hexdigest()


def validate_jobs(jobs, res, tlc_timeout):
    """validate recorded traces in parallel (one JVM each, one worker: the traces are linear);
    jobs = [(profile, shard path)]; accumulates into res (violations, tool_errors, shards, trace_states, distinct).
    A shard whose events are identical (up to the profile flag) to a shard of another profile that is being
    validated is not validated a second time: the verdict is a function of the events."""
    seen = {}
    unique = []
    for prof, s in jobs:
        d = shard_digest(s)
        if d in seen:
            res["shards_identical_across_profiles"] = res.get("shards_identical_across_profiles", 0) + 1
            res.setdefault("identical_pairs", []).append((os.path.basename(s), os.path.basename(seen[d])))
            continue
        seen[d] = s
        unique.append((prof, s))
    jobs = unique
    with concurrent.futures.ThreadPoolExecutor(max_workers=min(14, max(1, len(jobs)))) as ex:
        futs = {ex.submit(validate_shard, s, tlc_timeout): (prof, s) for prof, s in jobs}
        for fut in concurrent.futures.as_completed(futs):
            prof, s = futs[fut]
            v = fut.result()
            res["shards"] += 1
            res["trace_states"] += v.get("states", 0)
            lines = read_lines(s)
            for ln in lines[1:]:
                try:
                    evj = json.loads(ln)
                    k = nontrivial_key(evj)
                    ops = res.setdefault("trace_ops", {})
                    ops[evj.get("op")] = ops.get(evj.get("op"), 0) + 1
                except Exception:
                    k = None
                if k:
                    res["distinct"].add(hash(k))
            if v.get("error"):
                res["tool_errors"].append("%s: %s" % (os.path.basename(s), v["error"]))
            for mm in v.get("mismatches", [])[:60]:
                l = mm["l"]
                ev = json.loads(lines[l - 1])
                # history prefix: everything since the register was last (re)bound
                start = l
                while start > 2 and l - start < 200 and json.loads(lines[start - 1]).get("nb") != 1:
                    start -= 1
                if ev.get("op", "").startswith("it_"):
                    while start > 2 and l - start < 200 and json.loads(lines[start - 1]).get("op") != "it_new":
                        start -= 1
                prefix = [json.loads(x) for x in lines[start - 1:l - 1]]
                res["violations"].append({"profile": prof, "shard": os.path.basename(s), "line": l, "event": ev,
                                          "complaints": mm["c"], "expected": mm["e"], "prefix": prefix})
            if len(v.get("mismatches", [])) > 60:
                res["more_mismatches"] = res.get("more_mismatches", 0) + len(v["mismatches"]) - 60


def write_violation(prop, idx, v, tier, seed):
    d = os.path.join(OUT, "violations")
    os.makedirs(d, exist_ok=True)
    p = os.path.join(d, "%s-%s-%d.json" % (prop, tier, idx))
    with open(p, "w") as f:
        json.dump({"property": prop, "tier": tier, "seed": seed, **v}, f, indent=1)
    return p


def describe(v):
    ev = v["event"]
    return "%s %s form=%s x=%s[%d bits] y=%s[%d bits] a=%s profile=%s: %s" % (
        ev.get("op"), ev.get("cf"), ev.get("f"), ev.get("x", {}).get("k"), len(ev.get("x", {}).get("b", [])),
        ev.get("y", {}).get("k"), len(ev.get("y", {}).get("b", [])), json.dumps(ev.get("a", {}))[:120], v.get("profile"),
        ",".join(v["complaints"]))


def main(argv):
    import argparse
    ap = argparse.ArgumentParser()
    ap.add_argument("prop")
    ap.add_argument("--tier", default=os.environ.get("VERIF_TIER", "quick"))
    ap.add_argument("--replay")
    ap.add_argument("--profiles", default="dev,release")
    ap.add_argument("--no-mc", action="store_true")
    ap.add_argument("--no-drive", action="store_true")
    args = ap.parse_args(argv)
    prop = args.prop
    tier = "thorough" if args.tier == "thorough" else "quick"
    seed = int(os.environ.get("VERIF_SEED", "1") or "1")
    if prop not in PROPS:
        log("unknown property", prop)
        return 2
    t_start = time.time()
    profiles = [p for p in args.profiles.split(",") if p]
    try:
        bins = build_harness(profiles)
        if args.replay:
            import replaylib
            return replaylib.replay(prop, args.replay, bins)
        workdir = os.path.join(OUT, prop, tier)
        os.makedirs(workdir, exist_ok=True)
        import mcmodels
        mc = {"states": 0, "transitions": 0, "models": [], "violations": [], "tool_errors": [], "replayed": 0, "replay_execs": 0, "samples": []}
        if not args.no_mc:
            mc = mcmodels.run_models(prop, tier, seed, bins, workdir)
        dv = {"profiles": {}, "violations": [], "tool_errors": [], "events": 0, "execs": 0, "shards": 0, "trace_states": 0,
              "samples": [], "distinct": set(), "by_op": {}, "by_kind": {}}
        if not args.no_drive:
            dv = drive_and_validate(prop, tier, seed, bins, workdir, shards=8 if tier == "quick" else 14,
                                    tlc_timeout=900 if tier == "quick" else 7200)
    except ToolError as e:
        log("TOOL-ERROR", e)
        return 2
    except subprocess.TimeoutExpired as e:
        log("TOOL-ERROR timeout", e)
        return 2

    known = load_known()
    all_v = mc["violations"] + dv["violations"]
    new_v, known_hits = [], {}
    for v in all_v:
        k = matches_known(prop, v["event"], v["complaints"], known)
        if k:
            known_hits.setdefault(k["what"], 0)
            known_hits[k["what"]] += 1
        else:
            new_v.append(v)
    for what, n in known_hits.items():
        print("KNOWN-FINDING: property=%s %s (%d occurrences)" % (prop, what, n))
    # a specification that disagrees with the native reference is a tool error, never a violation
    spec_bugs = [v for v in new_v if "SPEC-DISAGREES-WITH-REFERENCE" in v["complaints"]]
    new_v = [v for v in new_v if v not in spec_bugs]
    tool_errors = mc["tool_errors"] + dv["tool_errors"] + ["specification disagrees with native reference: " + describe(v) for v in spec_bugs[:5]]
    shown = 0
    for i, v in enumerate(new_v):
        p = write_violation(prop, i, v, tier, seed)
        if shown < 25:
            print("VIOLATION property=%s replay=%s" % (prop, p))
            log("  " + describe(v))
            shown += 1
    if len(new_v) > shown:
        log("  ... and %d more violations (files written)" % (len(new_v) - shown))

    wall = time.time() - t_start
    samples = (mc.get("samples", [])[:3] + dv["samples"][:4]) or [{"note": "no events"}]
    states = mc["states"] + dv["trace_states"]
    transitions = mc["transitions"] + max(0, dv["trace_states"] - dv["shards"])
    evidence = {
        "property_id": prop, "tier": tier, "seed": seed, "level": "model_checking",
        "coverage": {
            "states": states, "transitions": transitions,
            "traces_validated_against_impl": dv["shards"] + mc.get("replayed", 0),
            "evaluations": dv["execs"] + mc.get("replay_execs", 0),
            "distinct_nontrivial": len(dv["distinct"]) + mc.get("distinct", 0),
            "rule": "bounded TLA+ models enumerate their scope completely (exhaustive within the stated bounds) and every "
                    "emitted transition is replayed on the real types; drivers run word-boundary-lattice and seeded random "
                    "cases on a rotating matrix of the 17 instantiations x operand instantiations x operator forms x "
                    "preparations and log one event per DISTINCT observed outcome, each validated by TLC against Trace.tla; "
                    "distinct_nontrivial counts distinct (operation, subject bits, operand bits, arguments) tuples among "
                    "validated events / replayed transitions, excluding those whose subject and operand are empty or all zero",
            "samples": samples,
            "exhaustive": bool(mc.get("exhaustive", False)),
            "bounded_models": mc["models"],
            "mc_states": mc["states"], "mc_transitions": mc["transitions"],
            "trace_states": dv["trace_states"], "trace_events_validated": dv["events"],
            "trace_shards": dv["shards"], "impl_executions": dv["execs"],
            "trace_shards_identical_to_a_validated_shard_of_the_other_profile": dv.get("shards_identical_across_profiles", 0),
            "spec_transitions_replayed": mc.get("replayed", 0), "replay_executions": mc.get("replay_execs", 0),
            "per_profile": dv["profiles"], "executions_by_operation": dv["by_op"], "executions_by_kind": dv["by_kind"],
            "validated_events_by_operation": dv.get("trace_ops", {}),
            "known_findings_hit": known_hits,
            "checker_cmd": "bin/check %s --tier %s" % (prop, tier),
        },
        "assumptions": [
            "len()/get()/zeros()/set() are the trusted read-back and constructors",
            "TLC 2026.09.04, CommunityModules Json/IOUtils/SequencesExt, serde_json are trusted",
            "x86-64 little-endian, usize = 64 bits; build profiles dev (debug assertions, overflow checks) and release",
            "arguments >= 2^30 are abstracted to BIG = 2^30 in the specification (exact for vectors shorter than 2^30 bits)",
        ],
        "wall_s": round(wall, 1), "violations": len(new_v),
    }
    os.makedirs(EVID, exist_ok=True)
    with open(os.path.join(EVID, prop + ".json"), "w") as f:
        json.dump(evidence, f, indent=1)
    if tool_errors:
        for e in tool_errors[:10]:
            log("TOOL-ERROR", e)
    log("[done] %s %s: %d violations, %d tool errors, %.1fs" % (prop, tier, len(new_v), len(tool_errors), wall))
    if new_v:
        return 1
    if tool_errors:
        return 2
    return 0
