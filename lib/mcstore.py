"""Layer-2 storage model (Store.tla): complete reachable graph at small word sizes, plus the
sensitivity runs in which a switch reproduces the code before one of the fix: commits and TLC has
to find the counterexample history."""
import os
import re
import shutil
import subprocess
import time

import checklib

# property -> {tier: [(config, expect_violation)]}
PLAN = {
    "C03": {"quick": [("fixed_w3", False), ("dyn_w3", False), ("prefix_F2_fixed", True), ("prefix_F3_dyn", True), ("prefix_F8_fixed", True)],
            "thorough": [("fixed_w3", False), ("dyn_w3", False), ("fixed_w4", False), ("dyn_w4", False),
                         ("prefix_F2_fixed", True), ("prefix_F2_dyn", True), ("prefix_F3_dyn", True), ("prefix_F8_fixed", True),
                         ("seeded_pop_fixed", True), ("seeded_shlin_dyn", True), ("seeded_copyrange_fixed", True),
                         ("seeded_rot_dyn", True), ("seeded_clonefrom_dyn", True)]},
    "C04": {"quick": [("fixed_w3", False), ("prefix_F2_fixed", True)], "thorough": [("fixed_w4", False), ("dyn_w4", False), ("prefix_F2_dyn", True)]},
    "C18": {"quick": [("dyn_w3", False), ("prefix_F3_dyn", True), ("seeded_clonefrom_dyn", True)],
            "thorough": [("dyn_w4", False), ("prefix_F3_dyn", True), ("seeded_clonefrom_dyn", True)]},
    # rotations (new zeroed allocation, positions below len only) and the seeded whole-word fast path
    "C06": {"quick": [("dyn_w3", False), ("seeded_rot_dyn", True)], "thorough": [("dyn_w4", False), ("fixed_w4", False), ("seeded_rot_dyn", True)]},
    # append / prepend written unit by unit over whatever resize left in storage
    "C07": {"quick": [("fixed_w3", False), ("dyn_w3", False)], "thorough": [("fixed_w4", False), ("dyn_w4", False)]},
    "C01": {"quick": [("dyn_w3", False)], "thorough": [("dyn_w4", False), ("fixed_w4", False)]},
    "C13": {"quick": [("prefix_F8_fixed", True)], "thorough": [("fixed_w4", False), ("prefix_F8_fixed", True)]},
    # design-level hash model (MCHash.tla): the fixed design passes, the two broken designs are refuted
    "C10": {"quick": [("MCHash:sig", False), ("MCHash:len", True), ("MCHash:raw", True)],
            "thorough": [("MCHash:sig", False), ("MCHash:len", True), ("MCHash:raw", True)]},
}


def run(prop, tier, workdir):
    out = []
    for cfgname, expect_violation in PLAN.get(prop, {}).get(tier, []):
        module, inv = "Store", "SInv"
        if ":" in cfgname:
            module, cfgname = cfgname.split(":")
            inv = "HashConsistent"
        cfg = os.path.join(checklib.SPEC, "cfg", "%s_%s.cfg" % (module, cfgname))
        md = os.path.join(workdir, "%s-%s.md" % (module, cfgname))
        shutil.rmtree(md, ignore_errors=True)
        cmd = checklib.tlc_cmd(8, "6g") + ["-metadir", md, "-cleanup", "-noGenerateSpecTE", "-config", cfg, module + ".tla"]
        t0 = time.time()
        r = subprocess.run(cmd, cwd=checklib.SPEC, stdout=subprocess.PIPE, stderr=subprocess.STDOUT, text=True, timeout=3600)
        shutil.rmtree(md, ignore_errors=True)
        res = {"name": "%s/%s (%s)" % (module, cfgname, "broken design / pre-fix switch: TLC must find the counterexample" if expect_violation else "complete graph"),
               "states": 0, "transitions": 0, "violations": [], "tool_errors": [], "replayed": 0, "replay_execs": 0, "samples": [],
               "distinct": 0, "exhaustive": not expect_violation, "emitted": 0}
        m = re.search(r"(\d+) states generated, (\d+) distinct states found", r.stdout)
        if m:
            res["transitions"], res["states"] = int(m.group(1)), int(m.group(2))
        passed = "Model checking completed. No error has been found." in r.stdout
        violated = ("Invariant %s is violated" % inv) in r.stdout or "does not refine" in r.stdout
        if expect_violation and not violated:
            res["tool_errors"].append("%s: the pre-fix design was expected to violate Canonical/ObsSound but TLC found nothing (insensitive specification)" % res["name"])
        if not expect_violation and not passed:
            tail = "\n".join(l for l in r.stdout.splitlines() if not re.match(r"^(Parsing|Semantic|Linting|Picked up)", l))[-2500:]
            res["tool_errors"].append("%s did not pass (specification-level):\n%s" % (res["name"], tail))
        checklib.log("[mc] %s: %d states, %d transitions, %s, %.1fs" % (res["name"], res["states"], res["transitions"],
                                                                      "counterexample found" if violated else "no error", time.time() - t0))
        out.append(res)
    return out
