"""Apalache obligations on the integer abstractions (spec/apalache): inductive invariants for
unbounded lengths and arguments.  A time-out is reported as 'not discharged', never as a failure."""
import os
import shutil
import subprocess
import time

import checklib

APA = os.path.join(checklib.SPEC, "apalache")
# property -> [(module, extra args, expected outcome: "OK" or "REFUTED", description)]
PLAN = {
    "C17": [("IterIdx.tla", ["--cinit=ConstInit", "--init=Init", "--inv=IndInv", "--length=0"], "OK", "Init => IndInv (0 <= start <= end <= N, no intermediate above usize::MAX), unbounded N"),
            ("IterIdx.tla", ["--cinit=ConstInit", "--init=IndInit", "--inv=IndInv", "--length=1"], "OK", "IndInv /\\ Next => IndInv', unbounded N and arguments 0..2^64-1"),
            ("IterIdx.tla", ["--cinit=ConstInitPreFix", "--init=IndInit", "--inv=IndInv", "--length=1"], "REFUTED", "sensitivity: the pre-fix nth (start + k) must be refuted (overflow witness)")],
    "C18": [("Capacity.tla", ["--init=Init", "--inv=IndInv", "--length=0"], "OK", "Init => IndInv (len <= capacity; inline => len <= 128)"),
            ("Capacity.tla", ["--init=IndInit", "--inv=IndInv", "--length=1"], "OK", "IndInv /\\ Next => IndInv' for reserve/grow/shrink/shrink_to_fit with unbounded lengths")],
    "C19": [("Capacity.tla", ["--init=IndInit", "--inv=IndInv", "--length=1"], "OK", "len <= capacity is inductive (shared with C18)")],
}


def run(prop, tier, workdir):
    out = []
    for mod, args, expect, what in PLAN.get(prop, []):
        od = os.path.join(workdir, "apalache")
        shutil.rmtree(od, ignore_errors=True)
        t0 = time.time()
        res = {"name": "Apalache %s %s: %s" % (mod, " ".join(args), what), "states": 0, "transitions": 0, "violations": [], "tool_errors": [],
               "replayed": 0, "replay_execs": 0, "samples": [], "distinct": 0, "exhaustive": False, "emitted": 0}
        try:
            # the launcher creates its java.io.tmpdir with mktemp -t: keep it under the (git-ignored) work directory
            tmpd = os.path.join(workdir, "apalache-tmp")
            os.makedirs(tmpd, exist_ok=True)
            r = subprocess.run(["apalache-mc", "check"] + args + ["--out-dir=" + od, mod], cwd=APA, stdout=subprocess.PIPE,
                               stderr=subprocess.STDOUT, text=True, timeout=300 if tier == "quick" else 1200,
                               env=dict(os.environ, TMPDIR=tmpd))
            shutil.rmtree(tmpd, ignore_errors=True)
            ok = "EXITCODE: OK" in r.stdout
            refuted = "EXITCODE: ERROR (12)" in r.stdout
            if expect == "OK" and ok:
                res["discharged"] = True
            elif expect == "REFUTED" and refuted:
                res["discharged"] = True
            else:
                res["discharged"] = False
                res["tool_errors"].append("Apalache obligation gave an unexpected answer (%s expected):\n%s" % (expect, r.stdout[-1500:]))
        except subprocess.TimeoutExpired:
            res["discharged"] = False
            res["note"] = "timed out: not discharged (not a failure of the property)"
        shutil.rmtree(od, ignore_errors=True)
        checklib.log("[apalache] %s %s -> %s, %.1fs" % (mod, " ".join(args), "discharged" if res.get("discharged") else "NOT discharged", time.time() - t0))
        out.append(res)
    return out
