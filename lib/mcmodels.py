"""Bounded TLA+ models (spec -> impl direction): TLC enumerates the model, checks the property's
statement on the specification itself, and every emitted transition is replayed on the real code."""
import json
import os
import re
import shutil
import subprocess
import threading
import time

import checklib

# property -> (module, NEXT, INVARIANT, {tier: constants})
FUN_MODELS = {
    "C01": ("MCFun", "Next_C01", "Inv_C01", {"quick": (5, 5), "thorough": (7, 8)}),
    "C02": ("MCFun", "Next_C02", "Inv_C02", {"quick": (5, 6), "thorough": (7, 8)}),
    "C04": ("MCFun", "Next_C04", "Inv_C04", {"quick": (5, 6), "thorough": (8, 8)}),
    "C05": ("MCFun", "Next_C05", "Inv_C05", {"quick": (8, 0), "thorough": (13, 0)}),
    "C06": ("MCFun", "Next_C06", "Inv_C06", {"quick": (8, 0), "thorough": (13, 0)}),
    "C07": ("MCFun", "Next_C07", "Inv_C07", {"quick": (4, 2), "thorough": (7, 3)}),
    "C08": ("MCFun", "Next_C08", "Inv_C08", {"quick": (7, 0), "thorough": (12, 0)}),
    "C09": ("MCFun", "Next_C09", "Inv_C09", {"quick": (5, 5), "thorough": (8, 8)}),
    "C11": ("MCFun", "Next_C11", "Inv_C11", {"quick": (8, 0), "thorough": (12, 0)}),
    "C12": ("MCFun", "Next_C12", "Inv_C12", {"quick": (8, 0), "thorough": (12, 0)}),
    "C13": ("MCFun", "Next_C13", "Inv_C13", {"quick": (8, 0), "thorough": (12, 0)}),
    "C14": ("MCFun", "Next_C14", "Inv_C14", {"quick": (5, 0), "thorough": (9, 0)}),
    "C15": ("MCFun", "Next_C15", "Inv_C15", {"quick": (5, 3), "thorough": (7, 4)}),
    "C16": ("MCFun", "Next_C16", "Inv_C16", {"quick": (9, 0), "thorough": (14, 0)}),
    "C19": ("MCFun", "Next_C19", "Inv_C19", {"quick": (0, 0), "thorough": (0, 0)}),
    "C20": ("MCFun", "Next_C20", "Inv_C20", {"quick": (4, 4), "thorough": (6, 5)}),
}


# vacuity control: every operation a bounded model is meant to exercise must occur among its transitions
EXPECTED_OPS = {
    "C01": ["add", "sub", "mul"], "C02": ["div", "rem", "div_rem"], "C04": ["and", "or", "xor", "not"],
    "C05": ["shl", "shr", "shl_in", "shr_in"], "C06": ["rotl", "rotr"],
    "C07": ["push", "pop", "set", "resize", "truncate", "sign_extend", "append", "prepend", "insert", "extend", "collect"],
    "C08": ["copy_range", "split_off", "split", "first", "last"], "C09": ["eq", "ne", "lt", "le", "gt", "ge", "pcmp"],
    "C11": ["from_int", "to_int", "from_slice"], "C12": ["convert", "new_inner", "clone"],
    "C13": ["to_vec", "write", "from_bytes", "read"], "C14": ["fmt"], "C15": ["from_binary", "from_hex"],
    "C16": ["leading_zeros", "leading_ones", "trailing_zeros", "trailing_ones", "significant_bits", "is_zero"],
    "C19": ["zeros", "ones", "push", "resize", "sign_extend", "append", "prepend", "insert", "extend", "collect"],
    "C20": ["add", "sub", "mul", "div", "rem", "and", "or", "xor", "shl", "shr"],
}


def cfg_text(nxt, inv, ls, lo):
    return ("INIT MCInit\nNEXT %s\nINVARIANT %s\nCONSTANTS\n  Ls = %d\n  Lo = %d\nCHECK_DEADLOCK FALSE\n" % (nxt, inv, ls, lo))


def write_cfgs():
    """(re)generate spec/cfg/MC_<PROP>_<tier>.cfg from the table above"""
    d = os.path.join(checklib.SPEC, "cfg")
    os.makedirs(d, exist_ok=True)
    for prop, (mod, nxt, inv, tiers) in FUN_MODELS.items():
        for tier, (ls, lo) in tiers.items():
            with open(os.path.join(d, "MC_%s_%s.cfg" % (prop, tier)), "w") as f:
                f.write(cfg_text(nxt, inv, ls, lo))


def run_fun_model(prop, tier, bins, workdir, timeout_s):
    mod, nxt, inv, tiers = FUN_MODELS[prop]
    cfg = os.path.join(checklib.SPEC, "cfg", "MC_%s_%s.cfg" % (prop, tier))
    if not os.path.exists(cfg):
        write_cfgs()
    md = os.path.join(workdir, "mc.md")
    shutil.rmtree(md, ignore_errors=True)
    cmd = checklib.tlc_cmd(12, "8g") + ["-metadir", md, "-cleanup", "-noGenerateSpecTE", "-config", cfg, mod + ".tla"]
    res = {"name": "%s/%s %s Ls=%d Lo=%d" % (mod, nxt, tier, tiers[tier][0], tiers[tier][1]), "states": 0, "transitions": 0,
           "violations": [], "tool_errors": [], "replayed": 0, "replay_execs": 0, "samples": [], "distinct": 0, "exhaustive": True}
    t0 = time.time()
    tlc = subprocess.Popen(cmd, cwd=checklib.SPEC, stdout=subprocess.PIPE, stderr=subprocess.STDOUT, text=True, bufsize=1 << 20)
    reps = {}
    for prof, b in bins.items():
        reps[prof] = subprocess.Popen([b, "replay", prop, "--max-fail", "40"], stdin=subprocess.PIPE, stdout=subprocess.PIPE,
                                      stderr=subprocess.PIPE, text=True, bufsize=1 << 20)
    outs = {}

    def collect(prof, p):
        outs[prof] = p.stdout.read()
    readers = [threading.Thread(target=collect, args=(prof, p)) for prof, p in reps.items()]
    for th in readers:
        th.start()
    other = []
    emitted = 0
    killer = threading.Timer(timeout_s, tlc.kill)
    killer.start()
    try:
        for line in tlc.stdout:
            if line.startswith('"{'):
                emitted += 1
                for p in reps.values():
                    try:
                        p.stdin.write(line)
                    except BrokenPipeError:
                        pass
            else:
                other.append(line)
    finally:
        killer.cancel()
    tlc.wait()
    for p in reps.values():
        try:
            p.stdin.close()
        except BrokenPipeError:
            pass
    for th in readers:
        th.join()
    for p in reps.values():
        p.wait()
    shutil.rmtree(md, ignore_errors=True)
    text = "".join(other)
    m = re.search(r"(\d+) states generated, (\d+) distinct states found", text)
    if m:
        res["transitions"] = int(m.group(1))
        res["states"] = int(m.group(2))
    complete = "Model checking completed. No error has been found." in text
    if not complete:
        tail = "\n".join(l for l in text.splitlines() if not re.match(r"^(Parsing|Semantic|Linting|Picked up)", l))[-2500:]
        if "Invariant" in text and "is violated" in text:
            res["tool_errors"].append("the SPECIFICATION violates the property statement %s (specification bug, not a code violation):\n%s" % (inv, tail))
        else:
            res["tool_errors"].append("TLC did not complete %s:\n%s" % (res["name"], tail))
        res["exhaustive"] = False
    res["emitted"] = emitted
    for prof, p in reps.items():
        if p.returncode == 3:
            # watchdog: a call of the code under test did not return while replaying
            case = {}
            for line in outs.get(prof, "").splitlines():
                if '"k":"HANG"' in line:
                    try:
                        case = json.loads(line).get("case", {})
                    except Exception:
                        pass
            ev = {"op": case.get("op", "?") if isinstance(case, dict) else "?", "cf": "fun", "f": "", "x": case.get("x", {}) if isinstance(case, dict) else {},
                  "y": {"k": str(case.get("y")) if isinstance(case, dict) else "?", "b": []}, "a": case.get("a", {}) if isinstance(case, dict) else {}}
            res["violations"].append({"profile": prof, "shard": "replay:" + res["name"], "line": 0, "event": ev,
                                      "complaints": ["call-does-not-return"], "expected": {}, "prefix": []})
            continue
        if p.returncode != 0:
            res["tool_errors"].append("replay (%s) failed with exit %s: %s" % (prof, p.returncode, p.stderr.read()[-1500:]))
            continue
        summ = None
        for line in outs.get(prof, "").splitlines():
            try:
                rec = json.loads(line)
            except Exception:
                continue
            if rec.get("k") == "FAIL":
                res["violations"].append({"profile": prof, "shard": "replay:" + res["name"], "line": 0, "event": rec["event"],
                                          "complaints": rec["complaints"], "expected": rec["expected"], "prefix": [],
                                          "spec_event": rec.get("spec_event")})
            elif rec.get("k") == "REPLAY-SUMMARY":
                summ = rec
        if not summ:
            res["tool_errors"].append("replay (%s) printed no summary" % prof)
            continue
        if summ["transitions"] != emitted:
            res["tool_errors"].append("replay (%s) consumed %d of %d emitted transitions" % (prof, summ["transitions"], emitted))
        missing = [o for o in EXPECTED_OPS.get(prop, []) if summ.get("by_op", {}).get(o, 0) == 0]
        if missing:
            res["tool_errors"].append("vacuity: the bounded model %s never exercised %s" % (res["name"], ", ".join(missing)))
        res["transitions_by_operation"] = summ.get("by_op", {})
        res["replayed"] += summ["transitions"]
        res["replay_execs"] += summ["execs"]
        res["distinct"] = max(res["distinct"], summ["distinct_nontrivial"])
        res["samples"].extend(summ["samples"][:1])
        if summ["fails"] > 40:
            res["more_fails_" + prof] = summ["fails"]
    if any("SPECIFICATION violates" in e for e in res["tool_errors"]):
        res["violations"] = []   # expected values from a specification that fails its own property are not believed
    checklib.log("[mc] %s: %d states, %d transitions emitted, replayed in %s, %.1fs" % (
        res["name"], res["states"], emitted, "+".join(bins.keys()), time.time() - t0))
    return res


def run_models(prop, tier, seed, bins, workdir):
    total = {"states": 0, "transitions": 0, "models": [], "violations": [], "tool_errors": [], "replayed": 0,
             "replay_execs": 0, "samples": [], "distinct": 0, "exhaustive": False}
    runs = []
    if prop in FUN_MODELS:
        runs.append(run_fun_model(prop, tier, bins, workdir, 1200 if tier == "quick" else 7200))
    try:
        import mchist
        runs.extend(mchist.run(prop, tier, seed, bins, workdir))
    except ImportError:
        pass
    import mcstore
    runs.extend(mcstore.run(prop, tier, workdir))
    import mcapalache
    runs.extend(mcapalache.run(prop, tier, workdir))
    for r in runs:
        total["states"] += r["states"]
        total["transitions"] += r["transitions"]
        total["models"].append({k: r[k] for k in ("name", "states", "transitions", "discharged", "note", "transitions_by_operation") if k in r} | {"emitted": r.get("emitted", 0)})
        total["violations"].extend(r["violations"])
        total["tool_errors"].extend(r["tool_errors"])
        total["replayed"] += r["replayed"]
        total["replay_execs"] += r["replay_execs"]
        total["samples"].extend(r["samples"])
        total["distinct"] += r["distinct"]
    total["exhaustive"] = bool(runs) and all(r.get("exhaustive") for r in runs)
    return total


if __name__ == "__main__":
    write_cfgs()
