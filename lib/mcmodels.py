"""Bounded TLA+ models (spec -> impl direction).  Filled in per property."""


def run_models(prop, tier, seed, bins, workdir):
    return {"states": 0, "transitions": 0, "models": [], "violations": [], "tool_errors": [], "replayed": 0,
            "replay_execs": 0, "samples": [], "distinct": 0, "exhaustive": False}
